(* The Exec model of the intrusive free list (UnorderedList.v) refines the Spec list of PoolSpec.v over every history of
   inserts, node and array allocations and releases. *)
From Coq Require Import ZArith NArith List Bool Lia Arith Permutation.
From FM Require Import GenArith FixedStack SmallCarve PoolSpec UnorderedList UnorderedListProofs.
Import ListNotations.
Local Open Scope Z_scope.

Lemma slot_addrs_ublock ns : forall k p, slot_addrs ns p k = ublock k p ns.
Proof. induction k as [|k IH]; intros p; cbn [slot_addrs ublock]; [reflexivity|]. rewrite IH. reflexivity. Qed.

Lemma ublock_in_iff cnt m step x : 0 < step -> (In x (ublock cnt m step) <-> m <= x < m + Z.of_nat cnt * step /\ (x - m) mod step = 0).
Proof.
  intros Hs. split; [apply ublock_in; exact Hs|]. revert m. induction cnt as [|c IH]; intros m [Hr Hm]; [lia|]. cbn [ublock In].
  destruct (Z.eq_dec x m) as [->|N]; [left; reflexivity|]. right. apply IH.
  apply Z.mod_divide in Hm; [|lia]. destruct Hm as [q Hq]. assert (1 <= q) by nia. split; [nia|].
  replace (x - (m + step)) with ((q - 1) * step) by lia. apply Z_mod_mult.
Qed.

Lemma is_slot_intrusive ns m size a : 0 < ns -> 0 <= size ->
  (is_slot LIntrusive ns (m, size) a = true <-> In a (ublock (Z.to_nat (size / ns)) m ns)).
Proof.
  intros Hns Hsz. rewrite (ublock_in_iff _ _ _ _ Hns). unfold is_slot. cbn [fst snd].
  assert (Hq : 0 <= size / ns) by (apply Z.div_pos; lia). rewrite Z2Nat.id by lia.
  rewrite !andb_true_iff, Z.leb_le, Z.eqb_eq, Z.ltb_lt. split.
  - intros [[H1 H2] H3]. split; [|exact H2]. pose proof (Z.div_mod (a - m) ns ltac:(lia)) as Hdm. rewrite H2 in Hdm. nia.
  - intros [[H1 H2] H3]. split; [split; [lia|exact H3]|]. apply Z.div_lt_upper_bound; [lia|]. lia.
Qed.

Lemma firstn_run_is_ublock : forall need l x step, (need <= length l)%nat ->
  (forall k, (k < need)%nat -> nth k l 0 = x + Z.of_nat k * step) -> firstn need l = ublock need x step.
Proof.
  induction need as [|n IH]; intros l x step Hlen Hrun; cbn [firstn ublock]; [reflexivity|].
  destruct l as [|h t]; [cbn in Hlen; lia|]. cbn [firstn]. f_equal.
  - specialize (Hrun 0%nat ltac:(lia)). cbn in Hrun. lia.
  - apply IH; [cbn in Hlen; lia|]. intros k Hk. specialize (Hrun (S k) ltac:(lia)). cbn [nth] in Hrun. rewrite Hrun. lia.
Qed.

(* what an array allocation removes from the list: exactly the block of `need` nodes starting at the result *)
Lemma u_alloc_array_perm l bytes x l' : UInv l -> u_ns l < bytes -> u_alloc_array l bytes = Some (x, l') ->
  Permutation (u_nodes l) (ublock (u_nodes_for l bytes) x (u_ns l) ++ u_nodes l') /\ u_ns l' = u_ns l.
Proof.
  intros [Hn Hs] Hb. unfold u_alloc_array. destruct (Z.leb_spec bytes (u_ns l)); [lia|].
  destruct (u_find (S (length (u_nodes l))) (u_nodes l) (u_ns l) (u_nodes_for l bytes) 0) as [i|] eqn:F; [|discriminate].
  intros Heq. injection Heq as <- <-. apply u_find_bound in F as [[_ F] Rr]. rewrite Nat.sub_0_r in F, Rr.
  set (need := u_nodes_for l bytes) in *. set (ns := u_nodes l) in *. cbn [u_nodes u_ns]. split; [|reflexivity].
  assert (Run : forall k, (k < need)%nat -> nth (i + k) ns 0 = nth i ns 0 + Z.of_nat k * u_ns l).
  { induction k as [|k IH]; intros Hk; [rewrite Nat.add_0_r; lia|].
    pose proof (link_run_consecutive (skipn i ns) (u_ns l) k) as C. assert (Hlt : (S k < link_run (skipn i ns) (u_ns l))%nat) by lia.
    specialize (C Hlt). rewrite !nth_skipn_plus in C. rewrite C, IH by lia. lia. }
  assert (Split : ns = firstn i ns ++ firstn need (skipn i ns) ++ skipn (i + need) ns).
  { rewrite <- (firstn_skipn i ns) at 1. f_equal. rewrite <- (firstn_skipn need (skipn i ns)) at 1. f_equal. apply skipn_skipn2. }
  assert (Blk : firstn need (skipn i ns) = ublock need (nth i ns 0) (u_ns l)).
  { apply firstn_run_is_ublock; [rewrite skipn_length; lia|]. intros k Hk. rewrite nth_skipn_plus. apply Run. exact Hk. }
  rewrite Split at 1. rewrite Blk. rewrite app_assoc. eapply Permutation_trans; [apply Permutation_app_tail; apply Permutation_app_comm|].
  rewrite <- app_assoc. apply Permutation_refl.
Qed.

(* ---------- histories of the Exec list, with the nodes and arrays its user holds ---------- *)
Record ug := { ug_l : ulist; ug_live : list (Z * Z) (* address, nodes *) }.
Inductive u_op := UIns (m size : Z) | UAlloc | UAllocArr (bytes : Z) | UDealloc (p : Z) | UDeallocArr (p bytes : Z).

Definition ulive_slots (ns : Z) (live : list (Z * Z)) : list Z := flat_map (fun a => ublock (Z.to_nat (snd a)) (fst a) ns) live.
Definition outside (m cnt ns x : Z) : bool := (x + ns <=? m) || (m + cnt * ns <=? x).

(* preconditions of the interface: insert gets memory none of whose nodes is known to the list or out; a release gives back
   what an allocation returned, with the same size *)
Definition ugstep (g : ug) (o : u_op) : option (ug * option Z) :=
  let l := ug_l g in let ns := u_ns l in
  match o with
  | UIns m size =>
      if (0 <=? size) && forallb (outside m (size / ns) ns) (ulive_slots ns (ug_live g) ++ u_nodes l)
      then Some ({| ug_l := u_insert l m size; ug_live := ug_live g |}, None) else None
  | UAlloc => match u_alloc l with Some (x, l') => Some ({| ug_l := l'; ug_live := (x, 1) :: ug_live g |}, Some x) | None => None end
  | UAllocArr bytes =>
      if ns <? bytes
      then match u_alloc_array l bytes with
           | Some (x, l') => Some ({| ug_l := l'; ug_live := (x, Z.of_nat (u_nodes_for l bytes)) :: ug_live g |}, Some x)
           | None => Some (g, None)      (* no run of that many nodes: refused, nothing changes *)
           end
      else None
  | UDealloc p =>
      match remove_alloc p 1 (ug_live g) with Some live' => Some ({| ug_l := u_dealloc l p; ug_live := live' |}, None) | None => None end
  | UDeallocArr p bytes =>
      if ns <? bytes
      then match remove_alloc p (Z.of_nat (u_nodes_for l bytes)) (ug_live g) with
           | Some live' => Some ({| ug_l := u_dealloc_array l p bytes; ug_live := live' |}, None) | None => None end
      else None
  end.

Record uspec := { us_rs : list tagged; us_l : lst }.
Definition us_step (s : uspec) (o : u_op) (res : option Z) : option uspec :=
  let l := us_l s in let ns := l_ns l in
  match o with
  | UIns m size =>
      Some {| us_rs := (ns, (m, size)) :: us_rs s;
              us_l := {| l_kind := l_kind l; l_ns := ns; l_allocs := l_allocs l; l_nfree := l_nfree l + nodes_of (l_kind l) ns (m, size) |} |}
  | UAlloc => match res with Some p => match take_slots (us_rs s) l p 1 with Some l' => Some {| us_rs := us_rs s; us_l := l' |} | None => None end | None => None end
  | UAllocArr bytes =>
      match res with
      | Some p => match take_slots (us_rs s) l p (slots_needed ns bytes) with Some l' => Some {| us_rs := us_rs s; us_l := l' |} | None => None end
      | None => Some s
      end
  | UDealloc p => match give_slots l p 1 with Some l' => Some {| us_rs := us_rs s; us_l := l' |} | None => None end
  | UDeallocArr p bytes => match give_slots l p (slots_needed ns bytes) with Some l' => Some {| us_rs := us_rs s; us_l := l' |} | None => None end
  end.

Fixpoint ucorun (g : ug) (s : uspec) (os : list u_op) : option (ug * uspec) :=
  match os with
  | [] => Some (g, s)
  | o :: tl => match ugstep g o with
               | Some (g', res) => match us_step s o res with Some s' => ucorun g' s' tl | None => None end
               | None => None
               end
  end.
Fixpoint ugrun (g : ug) (os : list u_op) : option ug :=
  match os with [] => Some g | o :: tl => match ugstep g o with Some (g', _) => ugrun g' tl | None => None end end.

Definition ul (ns : Z) (live : list (Z * Z)) (nfree : Z) : lst := {| l_kind := LIntrusive; l_ns := ns; l_allocs := live; l_nfree := nfree |}.
Definition uslotb (rs : list tagged) (ns a : Z) : bool := slot_of rs (ul ns [] 0) a.

Lemma live_slots_ul ns live n : live_slots (ul ns live n) = ulive_slots ns live.
Proof.
  unfold live_slots, ulive_slots, ul. cbn [l_allocs l_ns]. induction live as [|x tl IH]; cbn [flat_map]; [reflexivity|].
  rewrite IH, slot_addrs_ublock. reflexivity.
Qed.

Lemma remove_alloc_perm p k : forall al al', remove_alloc p k al = Some al' -> Permutation al ((p, k) :: al').
Proof.
  induction al as [|[q j] tl IH]; intros al' H; cbn [remove_alloc] in H; [discriminate|].
  destruct ((q =? p) && (j =? k)) eqn:E.
  - inversion H; subst. apply andb_prop in E. destruct E as [E1 E2]. apply Z.eqb_eq in E1. apply Z.eqb_eq in E2. subst. apply Permutation_refl.
  - destruct (remove_alloc p k tl) as [tl'|]; [|discriminate]. inversion H; subst.
    eapply Permutation_trans; [apply perm_skip; apply IH; reflexivity|]. apply perm_swap.
Qed.

Lemma ulive_slots_perm ns a b : Permutation a b -> Permutation (ulive_slots ns a) (ulive_slots ns b).
Proof. intros H. unfold ulive_slots. apply Permutation_flat_map. exact H. Qed.

(* any two different nodes of a list are node_size apart *)
Definition apart (ns : Z) (l : list Z) : Prop := forall a b, In a l -> In b l -> a <> b -> a + ns <= b \/ b + ns <= a.

(* the invariant of the simulation: the nodes that are out together with the free nodes are, without repetition, exactly
   the slots of the ranges ever inserted *)
Definition UR (g : ug) (s : uspec) : Prop :=
  let ns := u_ns (ug_l g) in
  UInv (ug_l g) /\ us_l s = ul ns (ug_live g) (u_capacity (ug_l g)) /\
  NoDup (ulive_slots ns (ug_live g) ++ u_nodes (ug_l g)) /\
  (forall a, In a (ulive_slots ns (ug_live g) ++ u_nodes (ug_l g)) <-> uslotb (us_rs s) ns a = true) /\
  apart ns (ulive_slots ns (ug_live g) ++ u_nodes (ug_l g)).

Lemma uzmem_spec a l : zmem a l = true <-> In a l.
Proof. unfold zmem. rewrite existsb_exists. split; [intros [x [Hx E]]; apply Z.eqb_eq in E; subst; exact Hx|intros H; exists a; split; [exact H|apply Z.eqb_refl]]. Qed.

Lemma uin_free_spec rs ns live n a : in_free rs (ul ns live n) a = true <-> uslotb rs ns a = true /\ ~ In a (ulive_slots ns live).
Proof.
  unfold in_free. rewrite live_slots_ul. change (slot_of rs (ul ns live n) a) with (uslotb rs ns a).
  rewrite andb_true_iff, negb_true_iff. split; intros [H1 H2]; split; try exact H1.
  - intros Hin. apply uzmem_spec in Hin. congruence.
  - destruct (zmem a (ulive_slots ns live)) eqn:E; [|reflexivity]. apply uzmem_spec in E. contradiction.
Qed.

Lemma nodup_app_not_in {A} (a b : list A) x : NoDup (a ++ b) -> In x b -> ~ In x a.
Proof.
  induction a as [|h t IH]; intros Hnd Hb Ha; [destruct Ha|]. cbn [app] in Hnd. inversion Hnd; subst. destruct Ha as [->|Ha].
  - match goal with H : ~ In _ (t ++ b) |- _ => apply H end. apply in_or_app. right. exact Hb.
  - eapply IH; eauto.
Qed.

(* a block of free nodes passes take_slots *)
Lemma take_block rs ns live nodes p k : (1 <= k)%nat -> NoDup (ulive_slots ns live ++ nodes) ->
  (forall a, In a (ulive_slots ns live ++ nodes) <-> uslotb rs ns a = true) ->
  (forall a, In a (ublock k p ns) -> In a nodes) -> (k <= length nodes)%nat ->
  take_slots rs (ul ns live (Z.of_nat (length nodes))) p (Z.of_nat k) = Some (ul ns ((p, Z.of_nat k) :: live) (Z.of_nat (length nodes) - Z.of_nat k)).
Proof.
  intros Hk Hnd Hiff Hblk Hlen. unfold take_slots. cbn [l_nfree l_ns l_kind l_allocs ul].
  destruct (Z.leb_spec 1 (Z.of_nat k)); [|lia]. destruct (Z.leb_spec (Z.of_nat k) (Z.of_nat (length nodes))); [|lia]. cbn [andb].
  rewrite Nat2Z.id, slot_addrs_ublock.
  assert (Hall : forallb (in_free rs (ul ns live (Z.of_nat (length nodes)))) (ublock k p ns) = true).
  { apply forallb_forall. intros a Ha. apply uin_free_spec. specialize (Hblk a Ha). split.
    - apply Hiff. apply in_or_app. right. exact Hblk.
    - eapply nodup_app_not_in; eauto. }
  fold (ul ns live (Z.of_nat (length nodes))). rewrite Hall. reflexivity.
Qed.

Lemma moved_keeps_invariant ns rs (live live' : list (Z * Z)) (nodes nodes' : list Z) :
  Permutation (ulive_slots ns live' ++ nodes') (ulive_slots ns live ++ nodes) ->
  NoDup (ulive_slots ns live ++ nodes) -> (forall a, In a (ulive_slots ns live ++ nodes) <-> uslotb rs ns a = true) ->
  apart ns (ulive_slots ns live ++ nodes) ->
  NoDup (ulive_slots ns live' ++ nodes') /\ (forall a, In a (ulive_slots ns live' ++ nodes') <-> uslotb rs ns a = true) /\
  apart ns (ulive_slots ns live' ++ nodes').
Proof.
  intros Hp Hnd Hiff Hap. split; [eapply Permutation_NoDup; [apply Permutation_sym; exact Hp|exact Hnd]|]. split.
  - intros a. rewrite <- (Hiff a). split; [apply Permutation_in; exact Hp|apply Permutation_in; apply Permutation_sym; exact Hp].
  - intros a b Ha Hb. apply Hap; eapply Permutation_in; eauto.
Qed.

Lemma nodes_for_slots l bytes : 0 < u_ns l -> u_ns l < bytes -> slots_needed (u_ns l) bytes = Z.of_nat (u_nodes_for l bytes) /\ (2 <= u_nodes_for l bytes)%nat.
Proof.
  intros Hns Hb. unfold slots_needed, u_nodes_for. destruct (Z.leb_spec bytes (u_ns l)); [lia|].
  assert (2 <= (bytes + u_ns l - 1) / u_ns l) by (apply Z.div_le_lower_bound; lia). rewrite Z2Nat.id by lia. split; [reflexivity|lia].
Qed.

(* a free node that is node_size apart from every node of an array lies outside the array *)
Lemma apart_from_block ns p need x : 0 < ns -> (1 <= need)%nat -> (forall i, 0 <= i < Z.of_nat need -> x + ns <= p + i * ns \/ p + i * ns + ns <= x) ->
  x + ns <= p \/ p + Z.of_nat need * ns <= x.
Proof.
  intros Hns Hn1 H. destruct (Z_le_gt_dec (x + ns) p) as [L|L]; [left; exact L|]. destruct (Z_le_gt_dec (p + Z.of_nat need * ns) x) as [G|G]; [right; exact G|]. exfalso.
  destruct (Z_lt_le_dec x p) as [Lx|Lx].
  - specialize (H 0 ltac:(lia)). lia.
  - set (i := (x - p) / ns). assert (Hi : 0 <= i) by (apply Z.div_pos; lia).
    pose proof (Z.div_mod (x - p) ns ltac:(lia)) as Hdm. pose proof (Z.mod_pos_bound (x - p) ns ltac:(lia)) as Hm. fold i in Hdm.
    assert (i < Z.of_nat need) by nia. specialize (H i ltac:(lia)). nia.
Qed.

Theorem ustep_refines g s o g' res : UR g s -> ugstep g o = Some (g', res) -> exists s', us_step s o res = Some s' /\ UR g' s'.
Proof.
  intros (Hinv & Hl & Hnd & Hiff & Hap) Hstep. cbv zeta in *. destruct s as [rs l]. cbn [us_l us_rs] in *. subst l.
  pose proof Hinv as [Hndn Hns]. set (ns := u_ns (ug_l g)) in *.
  destruct o as [m size| |bytes|p|p bytes]; cbn [ugstep] in Hstep; fold ns in Hstep.
  - (* insert *)
    destruct ((0 <=? size) && forallb _ _) eqn:Hpre; [|discriminate]. inversion Hstep; subst g' res; clear Hstep.
    apply andb_prop in Hpre. destruct Hpre as [Hs Hall]. apply Z.leb_le in Hs. rewrite forallb_forall in Hall.
    assert (Hq : 0 <= size / ns) by (apply Z.div_pos; lia).
    set (blk := ublock (Z.to_nat (size / ns)) m ns).
    assert (Hfar : forall a b, In a (ulive_slots ns (ug_live g) ++ u_nodes (ug_l g)) -> In b blk -> a + ns <= b \/ b + ns <= a).
    { intros a b Ha Hb. specialize (Hall a Ha). unfold outside in Hall. apply (ublock_in_iff _ _ _ _ Hns) in Hb. rewrite Z2Nat.id in Hb by lia. destruct Hb as [Hb1 Hb2].
      apply Z.mod_divide in Hb2; [|lia]. destruct Hb2 as [q Eq].
      apply orb_prop in Hall. destruct Hall as [H|H]; [apply Z.leb_le in H; left; lia|apply Z.leb_le in H; right]. assert (q < size / ns) by nia. nia. }
    assert (Hout : forall a, In a (ulive_slots ns (ug_live g) ++ u_nodes (ug_l g)) -> ~ In a blk).
    { intros a Ha Hb. destruct (Hfar a a Ha Hb); lia. }
    cbn [us_step us_l us_rs ul l_kind l_ns l_allocs l_nfree].
    exists {| us_rs := (ns, (m, size)) :: rs; us_l := ul ns (ug_live g) (u_capacity (u_insert (ug_l g) m size)) |}. split.
    { unfold ul. do 3 f_equal. unfold nodes_of, l_nodes, u_capacity, u_insert. cbn [snd u_nodes]. fold ns. rewrite app_length, ublock_length. lia. }
    unfold UR. cbn [ug_l ug_live us_l us_rs u_insert u_ns u_nodes]. fold ns. fold blk.
    split; [split; [cbn [u_nodes]|exact Hns]|].
    { apply NoDup_app_iff'. split; [apply ublock_nodup; exact Hns|]. split; [exact Hndn|]. intros x Hx Hx'. apply (Hout x); [apply in_or_app; right; exact Hx'|exact Hx]. }
    split; [reflexivity|]. split; [|split].
    + eapply Permutation_NoDup; [apply Permutation_app_swap_app|]. apply NoDup_app_iff'. split; [apply ublock_nodup; exact Hns|]. split; [exact Hnd|].
      intros x Hx Hx'. apply (Hout x Hx' Hx).
    + intros a. unfold uslotb, slot_of. cbn [existsb fst snd ul l_ns l_kind]. rewrite Z.eqb_refl. cbn [andb].
      fold (slot_of rs (ul ns [] 0) a). fold (uslotb rs ns a). rewrite orb_true_iff, <- (Hiff a), (is_slot_intrusive ns m size a Hns Hs). fold blk.
      rewrite !in_app_iff. tauto.
    + intros a b Ha Hb Hab.
      assert (Hcase : forall c, In c (ulive_slots ns (ug_live g) ++ blk ++ u_nodes (ug_l g)) -> In c blk \/ In c (ulive_slots ns (ug_live g) ++ u_nodes (ug_l g))).
      { intros c Hc. rewrite !in_app_iff in *. tauto. }
      destruct (Hcase a Ha) as [A|A]; destruct (Hcase b Hb) as [B|B].
      * apply (ublock_in_iff _ _ _ _ Hns) in A. apply (ublock_in_iff _ _ _ _ Hns) in B. destruct A as [_ A]. destruct B as [_ B].
        apply Z.mod_divide in A; [|lia]. apply Z.mod_divide in B; [|lia]. destruct A as [qa Ea]. destruct B as [qb Eb]. assert (qa <> qb) by (intros ->; lia). nia.
      * destruct (Hfar b a B A); lia.
      * exact (Hfar a b A B).
      * apply Hap; assumption.
  - (* allocate a node *)
    destruct (u_alloc (ug_l g)) as [[x l']|] eqn:E; [|discriminate]. inversion Hstep; subst g' res; clear Hstep.
    destruct (u_alloc_inv _ _ _ Hinv E) as (Hinv' & En & Hnx).
    assert (Ens : u_ns l' = ns) by (unfold u_alloc in E; destruct (u_nodes (ug_l g)); [discriminate|]; inversion E; reflexivity).
    cbn [us_step us_l us_rs]. unfold u_capacity.
    pose proof (take_block rs ns (ug_live g) (u_nodes (ug_l g)) x 1 ltac:(lia) Hnd Hiff) as Ht. change (Z.of_nat 1) with 1 in Ht.
    rewrite Ht; [|cbn [ublock]; intros a [<-|[]]; rewrite En; left; reflexivity|rewrite En; cbn [length]; lia].
    eexists. split; [reflexivity|]. unfold UR. cbn [ug_l ug_live us_l us_rs]. rewrite Ens.
    split; [exact Hinv'|]. split; [unfold ul, u_capacity; f_equal; rewrite En; cbn [length]; lia|].
    apply (moved_keeps_invariant ns rs (ug_live g) ((x, 1) :: ug_live g) (u_nodes (ug_l g)) (u_nodes l')); [|exact Hnd|exact Hiff|exact Hap].
    rewrite En. unfold ulive_slots at 1. cbn [flat_map fst snd]. change (Z.to_nat 1) with 1%nat. cbn [ublock app].
    fold (ulive_slots ns (ug_live g)). apply Permutation_middle.
  - (* allocate an array *)
    destruct (Z.ltb_spec ns bytes) as [Hb|Hb]; [|discriminate].
    destruct (u_alloc_array (ug_l g) bytes) as [[x l']|] eqn:E.
    + inversion Hstep; subst g' res; clear Hstep.
      destruct (u_alloc_array_inv _ _ _ _ Hinv Hb E) as (Hinv' & Hcap & Hrun).
      destruct (u_alloc_array_perm _ _ _ _ Hinv Hb E) as [Hperm Ens]. fold ns in Ens, Hperm.
      destruct (nodes_for_slots (ug_l g) bytes Hns Hb) as [Hsn Hk2]. fold ns in Hsn.
      set (need := u_nodes_for (ug_l g) bytes) in *.
      cbn [us_step us_l us_rs ul l_ns]. rewrite Hsn. unfold u_capacity.
      rewrite (take_block rs ns (ug_live g) (u_nodes (ug_l g)) x need ltac:(lia) Hnd Hiff).
      2:{ intros a Ha. eapply Permutation_in; [apply Permutation_sym; exact Hperm|]. apply in_or_app. left. exact Ha. }
      2:{ rewrite (Permutation_length Hperm), app_length, ublock_length. lia. }
      eexists. split; [reflexivity|]. unfold UR. cbn [ug_l ug_live us_l us_rs]. rewrite Ens.
      split; [exact Hinv'|]. split; [unfold ul; f_equal; unfold u_capacity in *; lia|].
      apply (moved_keeps_invariant ns rs (ug_live g) ((x, Z.of_nat need) :: ug_live g) (u_nodes (ug_l g)) (u_nodes l')); [|exact Hnd|exact Hiff|exact Hap].
      unfold ulive_slots at 1. cbn [flat_map fst snd]. rewrite Nat2Z.id. fold (ulive_slots ns (ug_live g)).
      rewrite <- app_assoc. eapply Permutation_trans; [apply Permutation_app_swap_app|]. apply Permutation_app_head. apply Permutation_sym. exact Hperm.
    + inversion Hstep; subst g' res; clear Hstep. cbn [us_step]. eexists. split; [reflexivity|]. unfold UR. cbn [us_l us_rs]. fold ns. repeat split; try assumption; apply Hiff.
  - (* release a node *)
    destruct (remove_alloc p 1 (ug_live g)) as [live'|] eqn:E; [|discriminate]. inversion Hstep; subst g' res; clear Hstep.
    pose proof (remove_alloc_perm _ _ _ _ E) as Hpl. pose proof (ulive_slots_perm ns _ _ Hpl) as Hps.
    unfold ulive_slots at 2 in Hps. cbn [flat_map fst snd] in Hps. change (Z.to_nat 1) with 1%nat in Hps. cbn [ublock app] in Hps. fold (ulive_slots ns live') in Hps.
    assert (Hpn : ~ In p (u_nodes (ug_l g))).
    { intros Hin. eapply (nodup_app_not_in _ _ p Hnd Hin). eapply Permutation_in; [apply Permutation_sym; exact Hps|]. left. reflexivity. }
    destruct (u_dealloc_inv _ p Hinv Hpn) as [Hinv' Hcap].
    cbn [us_step us_l us_rs]. unfold give_slots. cbn [l_allocs ul]. rewrite E.
    eexists. split; [reflexivity|]. unfold UR. cbn [ug_l ug_live us_l us_rs u_dealloc u_ns]. fold ns.
    split; [exact Hinv'|]. split; [unfold ul; cbn [l_kind l_ns l_nfree]; f_equal; exact (eq_sym Hcap)|].
    apply (moved_keeps_invariant ns rs (ug_live g) live' (u_nodes (ug_l g)) (p :: u_nodes (ug_l g))); [|exact Hnd|exact Hiff|exact Hap].
    eapply Permutation_trans; [apply Permutation_sym; apply Permutation_middle|]. cbn [app].
    apply Permutation_sym. eapply Permutation_trans; [apply Permutation_app_tail; exact Hps|]. apply Permutation_refl.
  - (* release an array *)
    destruct (Z.ltb_spec ns bytes) as [Hb|Hb]; [|discriminate].
    destruct (nodes_for_slots (ug_l g) bytes Hns Hb) as [Hsn Hk2]. fold ns in Hsn.
    set (need := u_nodes_for (ug_l g) bytes) in *.
    destruct (remove_alloc p (Z.of_nat need) (ug_live g)) as [live'|] eqn:E; [|discriminate]. inversion Hstep; subst g' res; clear Hstep.
    pose proof (remove_alloc_perm _ _ _ _ E) as Hpl. pose proof (ulive_slots_perm ns _ _ Hpl) as Hps.
    unfold ulive_slots at 2 in Hps. cbn [flat_map fst snd] in Hps. rewrite Nat2Z.id in Hps. fold (ulive_slots ns live') in Hps.
    assert (Hblk_live : forall a, In a (ublock need p ns) -> In a (ulive_slots ns (ug_live g))).
    { intros a Ha. eapply Permutation_in; [apply Permutation_sym; exact Hps|]. apply in_or_app. left. exact Ha. }
    assert (Hfree : forall x, In x (u_nodes (ug_l g)) -> x < p \/ p + Z.of_nat need * ns <= x).
    { intros x Hx. destruct (apart_from_block ns p need x Hns ltac:(lia)) as [H|H]; [|left; lia|right; exact H].
      intros i Hi. assert (Hin : In (p + i * ns) (ublock need p ns)).
      { apply (ublock_in_iff _ _ _ _ Hns). split; [nia|]. replace (p + i * ns - p) with (i * ns) by ring. apply Z_mod_mult. }
      assert (x <> p + i * ns). { intros ->. eapply (nodup_app_not_in _ _ _ Hnd Hx). apply Hblk_live. exact Hin. }
      destruct (Hap x (p + i * ns)); [apply in_or_app; right; exact Hx|apply in_or_app; left; apply Hblk_live; exact Hin|assumption|left; lia|right; lia]. }
    destruct (u_dealloc_array_inv _ p bytes Hinv Hb Hfree) as [Hinv' Hcap]. fold need in Hcap.
    cbn [us_step us_l us_rs ul l_ns]. rewrite Hsn. unfold give_slots. cbn [l_allocs ul]. rewrite E.
    eexists. split; [reflexivity|]. unfold UR. cbn [ug_l ug_live us_l us_rs].
    assert (Ens : u_ns (u_dealloc_array (ug_l g) p bytes) = ns) by (unfold u_dealloc_array; destruct (bytes <=? u_ns (ug_l g)); reflexivity). rewrite Ens.
    split; [exact Hinv'|]. split; [unfold ul; cbn [l_kind l_ns l_nfree]; f_equal; exact (eq_sym Hcap)|].
    assert (En : u_nodes (u_dealloc_array (ug_l g) p bytes) = ublock need p ns ++ u_nodes (ug_l g)).
    { unfold u_dealloc_array. fold ns. destruct (Z.leb_spec bytes ns); [lia|]. reflexivity. }
    rewrite En. apply (moved_keeps_invariant ns rs (ug_live g) live' (u_nodes (ug_l g)) (ublock need p ns ++ u_nodes (ug_l g))); [|exact Hnd|exact Hiff|exact Hap].
    eapply Permutation_trans; [apply Permutation_app_swap_app|]. rewrite app_assoc. apply Permutation_app_tail. apply Permutation_sym. exact Hps.
Qed.

Theorem urun_refines : forall os g0 s0 g, UR g0 s0 -> ugrun g0 os = Some g -> exists s, ucorun g0 s0 os = Some (g, s) /\ UR g s.
Proof.
  induction os as [|o tl IH]; intros g0 s0 g Hr Hrun; cbn [ugrun ucorun] in *.
  - inversion Hrun; subst. eauto.
  - destruct (ugstep g0 o) as [[g1 res]|] eqn:E; [|discriminate].
    destruct (ustep_refines g0 s0 o g1 res Hr E) as (s1 & Es & Hr1). rewrite Es. apply IH; assumption.
Qed.

Lemma uempty_R ns : 0 < ns -> UR {| ug_l := u_empty ns; ug_live := [] |} {| us_rs := []; us_l := ul ns [] 0 |}.
Proof.
  intros Hns. unfold UR. cbn [ug_l ug_live us_l us_rs u_empty u_ns u_nodes ulive_slots flat_map app].
  split; [split; [constructor|exact Hns]|]. split; [reflexivity|]. split; [constructor|]. split; [|intros a b []].
  intros a. cbn. split; [intros []|discriminate].
Qed.

(* whatever the intrusive list does over a history of inserts, node and array allocations (refused ones included) and
   releases, the Spec accepts it, and the Spec's free count and set of nodes that are out are the list's *)
Theorem unordered_list_refines_spec ns os g : 0 < ns -> ugrun {| ug_l := u_empty ns; ug_live := [] |} os = Some g ->
  exists s, ucorun {| ug_l := u_empty ns; ug_live := [] |} {| us_rs := []; us_l := ul ns [] 0 |} os = Some (g, s) /\
            l_nfree (us_l s) = u_capacity (ug_l g) /\ l_allocs (us_l s) = ug_live g.
Proof.
  intros Hns Hrun. destruct (urun_refines os _ _ g (uempty_R ns Hns) Hrun) as (s & Hc & (Hg & Hl & _)).
  exists s. split; [exact Hc|]. rewrite Hl. split; reflexivity.
Qed.

Example unordered_refinement_nonvacuous :
  match ugrun {| ug_l := u_empty 16; ug_live := [] |} [UIns 1024 160; UAlloc; UAllocArr 40; UDealloc 1024; UAllocArr 1000; UDeallocArr 1040 40; UIns 4096 64; UAlloc] with
  | Some g => ug_live g = [(4096, 1)] /\ u_capacity (ug_l g) = 13
  | None => False
  end.
Proof. vm_compute. split; reflexivity. Qed.
