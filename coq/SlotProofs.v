(* Geometry of the nodes a free list creates from an inserted range: every node lies inside the range and
   two different nodes of one range are at least one node size apart -- for the intrusive lists and for
   the chunked small list, all node sizes, all range sizes. *)
From Coq Require Import ZArith NArith List Bool Lia ZifyBool.
From FM Require Import Wrap GenArith FixedStack FixedStackProofs SmallCarve CapacityProofs PoolSpec.
Import ListNotations.
Local Open Scope Z_scope.
Ltac Zify.zify_post_hook ::= Z.div_mod_to_equations.

Lemma constsZ : cmoZ = 32 /\ mxZ = 255 /\ caZ = 8 /\ hdrZ = 16 /\ maxalZ = 16.
Proof. repeat split; reflexivity. Qed.

Definition rng_disj (a b : range) : Prop := fst a + snd a <= fst b \/ fst b + snd b <= fst a.
Definition rng_inside (a b : range) : Prop := fst b <= fst a /\ fst a + snd a <= fst b + snd b.

Lemma r_disj_spec a b : r_disj a b = true <-> rng_disj a b.
Proof. unfold r_disj, rng_disj. rewrite orb_true_iff, !Z.leb_le. tauto. Qed.
Lemma r_inside_spec a b : r_inside a b = true <-> rng_inside a b.
Proof. unfold r_inside, rng_inside. rewrite andb_true_iff, !Z.leb_le. tauto. Qed.

(* ---------- intrusive lists ---------- *)
Lemma islot_intr ns r a : 0 < ns -> is_slot LIntrusive ns r a = true ->
  exists i, 0 <= i < snd r / ns /\ a = fst r + i * ns.
Proof.
  intros Hns H. unfold is_slot in H. cbv zeta in H.
  apply andb_true_iff in H as [H H3]. apply andb_true_iff in H as [H1 H2].
  apply Z.leb_le in H1. apply Z.eqb_eq in H2. apply Z.ltb_lt in H3.
  exists ((a - fst r) / ns). split.
  - split; [apply Z.div_pos; lia|assumption].
  - pose proof (Z.div_mod (a - fst r) ns ltac:(lia)). lia.
Qed.

Lemma slot_inside_intr ns r a : 0 < ns -> is_slot LIntrusive ns r a = true ->
  fst r <= a /\ a + ns <= fst r + snd r.
Proof.
  intros Hns H. destruct (islot_intr ns r a Hns H) as (i & [Hi0 Hi] & ->).
  assert (0 <= snd r) by (destruct (Z_lt_le_dec (snd r) 0); [exfalso; assert (snd r / ns < 0) by (apply Z.div_lt_upper_bound; lia); lia|assumption]).
  pose proof (Z.mul_div_le (snd r) ns Hns). split; nia.
Qed.

Lemma slot_apart_intr ns r a b : 0 < ns -> is_slot LIntrusive ns r a = true -> is_slot LIntrusive ns r b = true ->
  a <> b -> a + ns <= b \/ b + ns <= a.
Proof.
  intros Hns Ha Hb Hne. destruct (islot_intr ns r a Hns Ha) as (i & _ & ->). destruct (islot_intr ns r b Hns Hb) as (j & _ & ->).
  assert (i <> j) by (intro; subst; apply Hne; reflexivity).
  destruct (Z_lt_le_dec i j); [left|right]; nia.
Qed.

(* ---------- small list ---------- *)
Section Small.
Variable ns : Z.
Hypothesis Hns : 1 <= ns.
Let st := s_stride cmoZ mxZ caZ ns.

Lemma st_props : 32 + 255 * ns <= st < 32 + 255 * ns + 8.
Proof. unfold st. change cmoZ with 32. change mxZ with 255. change caZ with 8. pose proof (stride_props ns Hns). cbv zeta in *. lia. Qed.

Lemma islot_small r a : is_slot LSmall ns r a = true ->
  exists c i, 0 <= c /\ 0 <= i /\ a = fst r + c * st + 32 + i * ns /\
              (c < s_nochunks cmoZ mxZ caZ ns (snd r) /\ i < 255 \/
               c = s_nochunks cmoZ mxZ caZ ns (snd r) /\ i < s_rem_nodes cmoZ mxZ caZ ns (snd r)).
Proof.
  intros H. unfold is_slot in H. cbv zeta in H. fold st in H.
  apply andb_true_iff in H as [H H4]. apply andb_true_iff in H as [H H3]. apply andb_true_iff in H as [H1 H2].
  apply Z.leb_le in H1. apply Z.leb_le in H2. apply Z.eqb_eq in H3. apply Z.ltb_lt in H4.
  change cmoZ with 32 in *. change mxZ with 255 in *.
  pose proof st_props as Hst.
  set (off := a - fst r) in *.
  pose proof (Z.div_mod off st ltac:(lia)) as Hdm. pose proof (Z.mod_pos_bound off st ltac:(lia)) as Hmb.
  set (c := off / st) in *. set (q := off mod st) in *.
  pose proof (Z.div_mod (q - 32) ns ltac:(lia)) as Hdm2. rewrite H3 in Hdm2.
  set (i := (q - 32) / ns) in *.
  exists c, i.
  assert (0 <= c) by (apply Z.div_pos; lia).
  assert (0 <= i) by (apply Z.div_pos; lia).
  split; [assumption|]. split; [assumption|]. split; [unfold off in *; lia|].
  destruct (Z.ltb_spec c (s_nochunks 32 255 caZ ns (snd r))); [left; split; assumption|].
  destruct (Z.eqb_spec c (s_nochunks 32 255 caZ ns (snd r))); [right; split; assumption|lia].
Qed.

Lemma rem_nodes_le size : 0 <= size -> let rn := s_rem_nodes cmoZ mxZ caZ ns size in
  0 <= rn /\ (0 < rn -> 32 + rn * ns <= s_rem cmoZ mxZ caZ ns size).
Proof.
  intros Hs. cbv zeta. unfold s_rem_nodes. change cmoZ with 32. change mxZ with 255. change caZ with 8.
  destruct (Z.leb_spec (32 + ns) (s_rem 32 255 8 ns size)) as [Hr|Hr]; [|lia].
  pose proof (rem_chunk_fits_uchar ns size Hns Hs Hr) as Hu.
  set (rm := s_rem 32 255 8 ns size) in *.
  assert (0 <= (rm - 32) / ns) by (apply Z.div_pos; lia).
  rewrite Z.mod_small by lia.
  pose proof (Z.mul_div_le (rm - 32) ns ltac:(lia)). split; [assumption|]. intros _. lia.
Qed.

Lemma slot_inside_small r a : 0 <= snd r -> is_slot LSmall ns r a = true ->
  fst r <= a /\ a + ns <= fst r + snd r.
Proof.
  intros Hsz H. destruct (islot_small r a H) as (c & i & Hc & Hi & -> & Hcase).
  pose proof st_props as Hst.
  unfold s_nochunks, s_rem in *. fold st in Hcase.
  pose proof (rem_nodes_le (snd r) Hsz) as [Hr0 Hr1]. cbv zeta in *. unfold s_rem in Hr1. fold st in Hr1.
  pose proof (Z.div_mod (snd r) st ltac:(lia)) as Hdm. pose proof (Z.mod_pos_bound (snd r) st ltac:(lia)) as Hmb.
  set (nch := snd r / st) in *. set (rm := snd r mod st) in *.
  destruct Hcase as [[Hc1 Hi1]|[Hc1 Hi1]].
  - split; [nia|]. assert ((c + 1) * st <= nch * st) by nia. nia.
  - subst c. set (rn := s_rem_nodes cmoZ mxZ caZ ns (snd r)) in *. split; [nia|]. specialize (Hr1 ltac:(lia)). nia.
Qed.

Lemma slot_apart_small r a b : 0 <= snd r -> is_slot LSmall ns r a = true -> is_slot LSmall ns r b = true ->
  a <> b -> a + ns <= b \/ b + ns <= a.
Proof.
  intros Hsz Ha Hb Hne.
  destruct (islot_small r a Ha) as (c & i & Hc & Hi & -> & Hca).
  destruct (islot_small r b Hb) as (d & j & Hd & Hj & -> & Hcb).
  pose proof st_props as Hst.
  pose proof (rem_nodes_le (snd r) Hsz) as [Hr0 Hr1]. cbv zeta in *. unfold s_rem in Hr1. fold st in Hr1.
  unfold s_nochunks in *. fold st in Hca, Hcb.
  pose proof (Z.div_mod (snd r) st ltac:(lia)) as Hdm. pose proof (Z.mod_pos_bound (snd r) st ltac:(lia)) as Hmb.
  set (nch := snd r / st) in *. set (rm := snd r mod st) in *.
  set (rn := s_rem_nodes cmoZ mxZ caZ ns (snd r)) in *.
  destruct (Z.eq_dec c d) as [->|Hcd].
  - assert (i <> j) by (intro; subst; apply Hne; reflexivity).
    destruct (Z_lt_le_dec i j); [left|right]; nia.
  - (* different chunks: a node never leaves its chunk's stride *)
    assert (Hia : i <= 254) by (destruct Hca as [[_ ?]|[_ ?]]; [lia|]; unfold rn, s_rem_nodes in *; destruct (_ <=? _); [pose proof (Z.mod_pos_bound ((s_rem cmoZ mxZ caZ ns (snd r) - cmoZ) / ns) 256 ltac:(lia)); lia|lia]).
    assert (Hjb : j <= 254) by (destruct Hcb as [[_ ?]|[_ ?]]; [lia|]; unfold rn, s_rem_nodes in *; destruct (_ <=? _); [pose proof (Z.mod_pos_bound ((s_rem cmoZ mxZ caZ ns (snd r) - cmoZ) / ns) 256 ltac:(lia)); lia|lia]).
    destruct (Z_lt_le_dec c d); [left|right]; nia.
Qed.
End Small.

(* ---------- both kinds ---------- *)
Definition ns_ok (k : lkind) (ns : Z) : Prop := match k with LIntrusive => 0 < ns | LSmall => 1 <= ns end.

Lemma slot_inside k ns r a : ns_ok k ns -> 0 <= snd r -> is_slot k ns r a = true ->
  fst r <= a /\ a + ns <= fst r + snd r.
Proof. destruct k; cbn; intros; [apply slot_inside_intr|apply slot_inside_small]; assumption. Qed.

Lemma slot_apart k ns r a b : ns_ok k ns -> 0 <= snd r -> is_slot k ns r a = true -> is_slot k ns r b = true ->
  a <> b -> a + ns <= b \/ b + ns <= a.
Proof. destruct k; cbn; intros; [eapply slot_apart_intr|eapply slot_apart_small]; eassumption. Qed.

(* node alignment for the intrusive lists: the range starts aligned and the node size is a multiple *)
Lemma slot_aligned_intr ns r a al : 0 < ns -> 0 < al -> fst r mod al = 0 -> ns mod al = 0 ->
  is_slot LIntrusive ns r a = true -> a mod al = 0.
Proof.
  intros Hns Hal Hr Hn H. destruct (islot_intr ns r a Hns H) as (i & _ & ->).
  apply Z.mod_divide in Hr; [|lia]. apply Z.mod_divide in Hn; [|lia]. apply Z.mod_divide; [lia|].
  apply Z.divide_add_r; [assumption|]. apply Z.divide_mul_r. assumption.
Qed.
