(* C10 -- STL containers on RawAllocators return every node to the allocator it came from.  Statements only.
   PARTIAL: libstdc++'s containers are not modelled; what is proved is (1) the equality algebra of std_allocator,
   (2) that the container protocol of the standard, with the propagation traits std_allocator declares, returns every
   node to its origin, (3) the arithmetic that makes X_node_size<T> cover the node layouts. *)
From Coq Require Import ZArith List Bool.
From FM Require Import Container ContainerProofs.
Import ListNotations.

(* two std_allocators (over the same allocator type) compare equal exactly when they refer to the same resource *)
Theorem C10_equal_iff_same_resource : forall a b, same_kind a b = true -> heq true a b = same_resource a b.
Proof. exact heq_iff_same_resource. Qed.
Print Assumptions C10_equal_iff_same_resource.

(* as the pinned tree had it, type-erased allocators compared equal whatever they referred to *)
Theorem C10_type_erased_equality_was_wrong : exists a b, heq false a b = true /\ same_resource a b = false.
Proof. exact any_equality_refuted. Qed.
Print Assumptions C10_type_erased_equality_was_wrong.

(* any program of insert / erase / clear / copy / move / swap / splice over any number of containers bound to any allocators:
   every container only ever holds nodes of the allocator it refers to, and every release goes to the node's origin *)
Theorem C10_every_node_returns_to_its_allocator : forall os w w' r, world_ok w = true -> krun all_true w os = Some (w', r) ->
  world_ok w' = true /\ forallb rel_ok r = true.
Proof. exact every_node_returns_to_its_allocator. Qed.
Print Assumptions C10_every_node_returns_to_its_allocator.

(* the propagation traits matter: without propagation on swap the same kind of program releases through the wrong allocator *)
Theorem C10_swap_needs_propagation :
  exists os w' r, krun {| pocca := true; pocma := true; pocs := false |} [{| k_alloc := 1; k_nodes := [] |}; {| k_alloc := 2; k_nodes := [] |}] os = Some (w', r) /\ forallb rel_ok r = false.
Proof. exact swap_without_propagation_refuted. Qed.
Print Assumptions C10_swap_needs_propagation.

(* node sizes: if the generated constant for alignof T covers the node header padded to that alignment, then
   X_node_size<T> = round_up(base + sizeof T, 8) covers the whole node, for every element size *)
Theorem C10_node_size_constant_covers_layout : forall header halign base sizeT alignT,
  (0 < alignT -> 0 < halign -> halign <= 8 -> alignT <= 8 -> (8 mod alignT = 0) -> (8 mod halign = 0) -> 0 <= header -> 0 <= sizeT -> sizeT mod alignT = 0 ->
   round_up header alignT <= base -> node_layout header halign sizeT alignT <= promised base sizeT)%Z.
Proof. exact promised_covers_layout. Qed.
Print Assumptions C10_node_size_constant_covers_layout.

Example C10_nonvacuous :
  krun all_true [{| k_alloc := 1; k_nodes := [] |}; {| k_alloc := 2; k_nodes := [] |}] [CInsert 0; CInsert 0; CInsert 1; CSwap 0 1; CCopyAssign 0 1; CErase 1; CMoveAssign 1 0; CClear 0]
  = Some ([{| k_alloc := 2; k_nodes := [] |}; {| k_alloc := 2; k_nodes := [] |}], [(1, 1); (1, 1); (2, 2); (2, 2)]).
Proof. vm_compute. reflexivity. Qed.
