(* C14, concurrent part: the global list of temporary stacks (src/temporary_allocator.cpp, stack mode 2) as a transition
   system with one transition per shared-memory tstep.  Threads and stacks are numbered; a stack is published at the
   moment it is created (the constructor's CAS loop on the list head is one atomic push: a failed CAS only retries).
   Three design points of the code are parameters, so that the code as it was and the code as it is can both be stated:
     reset_ts      : ~temporary_stack_initializer forgets the thread's stack after marking it free
     detect_adopt  : a thread that adopts a free stack also arms its thread-exit detector
     always_destroy: the list is destroyed at program exit whether or not the main thread has a stack *)
From Coq Require Import List Bool Arith Lia.
Import ListNotations.

Record cfg := { reset_ts : bool; detect_adopt : bool; always_destroy : bool }.
Definition fixed_cfg : cfg := {| reset_ts := true; detect_adopt := true; always_destroy := true |}.

Record thr := {
  t_live : bool;
  t_ts   : option nat;          (* thread-local temp_stack *)
  t_hold : option nat;          (* adopted or created, not yet stored into temp_stack *)
  t_scan : option (list nat);   (* find_unused in progress: the nodes still to visit *)
  t_det  : bool                 (* thread_exit_detector constructed in this thread *)
}.
Definition fresh_thr : thr := {| t_live := true; t_ts := None; t_hold := None; t_scan := None; t_det := false |}.
Definition dead_thr : thr := {| t_live := false; t_ts := None; t_hold := None; t_scan := None; t_det := false |}.

Record gst := {
  nstacks  : nat;
  in_use   : nat -> bool;       (* per stack id; ids below nstacks exist, the newest has the highest id *)
  nthreads : nat;
  tthreads  : nat -> thr;
  freed    : bool               (* destroy() has trun *)
}.
Definition init_gst : gst := {| nstacks := 0; in_use := fun _ => false; nthreads := 0; tthreads := fun _ => dead_thr; freed := false |}.

Inductive ev :=
  | EStart (t : nat)            (* a new thread *)
  | EGet (t : nat)              (* get_temporary_stack() / initializer constructor with no stack: first.load() *)
  | EScan (t : nat)             (* one compare_exchange on in_use_ of the next node; on an exhausted list: create_new *)
  | EStore (t : nat)            (* temp_stack = ... *)
  | EInitDtor (t : nat)         (* ~temporary_stack_initializer: clear() *)
  | EExit (t : nat)             (* thread exit: the detector (if constructed) clears the stack *)
  | EProgramExit (main : nat).  (* nifty counter reaches zero in the main thread *)

Definition getT (g : gst) (t : nat) : thr := tthreads g t.
Definition setT (g : gst) (t : nat) (x : thr) : gst :=
  {| nstacks := nstacks g; in_use := in_use g; nthreads := nthreads g; tthreads := fun u => if Nat.eqb u t then x else tthreads g u; freed := freed g |}.
Definition setU (g : gst) (s : nat) (b : bool) : gst :=
  {| nstacks := nstacks g; in_use := fun u => if Nat.eqb u s then b else in_use g u; nthreads := nthreads g; tthreads := tthreads g; freed := freed g |}.
Definition used (g : gst) (s : nat) : bool := in_use g s.

(* newest first, as find_unused walks the list *)
Fixpoint ids_desc (n : nat) : list nat := match n with O => [] | S k => k :: ids_desc k end.

Definition mk (x : thr) (ts hold : option nat) (scan : option (list nat)) (det : bool) : thr :=
  {| t_live := true; t_ts := ts; t_hold := hold; t_scan := scan; t_det := det |}.

Definition tstep (c : cfg) (g : gst) (e : ev) : option gst :=
  match e with
  | EStart t =>
      if Nat.eqb t (nthreads g)
      then Some {| nstacks := nstacks g; in_use := in_use g; nthreads := S (nthreads g);
                   tthreads := fun u => if Nat.eqb u t then fresh_thr else tthreads g u; freed := freed g |}
      else None
  | EGet t =>
      let x := getT g t in
      if t_live x && negb (freed g) then
        match t_ts x, t_hold x, t_scan x with
        | None, None, None => Some (setT g t (mk x None None (Some (ids_desc (nstacks g))) (t_det x)))
        | _, _, _ => None
        end
      else None
  | EScan t =>
      let x := getT g t in
      if t_live x then
        match t_scan x with
        | Some (s :: rest) =>
            if used g s then Some (setT g t (mk x (t_ts x) None (Some rest) (t_det x)))
            else Some (setT (setU g s true) t (mk x (t_ts x) (Some s) None (t_det x)))
        | Some [] =>
            (* create_new: a new node, in use, pushed on the list; its constructor arms the detector *)
            let s := nstacks g in
            Some (setT {| nstacks := S s; in_use := fun u => if Nat.eqb u s then true else in_use g u;
                          nthreads := nthreads g; tthreads := tthreads g; freed := freed g |} t
                       (mk x (t_ts x) (Some s) None true))
        | None => None
        end
      else None
  | EStore t =>
      let x := getT g t in
      if t_live x then
        match t_hold x with
        | Some s => Some (setT g t (mk x (Some s) None None (t_det x || detect_adopt c)))
        | None => None
        end
      else None
  | EInitDtor t =>
      let x := getT g t in
      if t_live x then
        match t_ts x, t_hold x, t_scan x with
        | Some s, None, None => Some (setT (setU g s false) t (mk x (if reset_ts c then None else Some s) None None (t_det x)))
        | _, _, _ => None
        end
      else None
  | EExit t =>
      let x := getT g t in
      if t_live x then
        match t_hold x, t_scan x with
        | None, None =>
            let g' := match t_ts x with Some s => if t_det x then setU g s false else g | None => g end in
            Some (setT g' t dead_thr)
        | _, _ => None
        end
      else None
  | EProgramExit m =>
      let x := getT g m in
      if t_live x && negb (freed g) then
        if always_destroy c || (match t_ts x with Some _ => true | None => false end)
        then Some {| nstacks := nstacks g; in_use := in_use g; nthreads := nthreads g; tthreads := tthreads g; freed := true |}
        else Some g
      else None
  end.

Fixpoint trun (c : cfg) (g : gst) (es : list ev) : option gst :=
  match es with
  | [] => Some g
  | e :: tl => match tstep c g e with Some g' => trun c g' tl | None => None end
  end.

(* what a thread may touch: the stack in temp_stack and the one it has just adopted or created *)
Definition holds (x : thr) (s : nat) : bool :=
  t_live x && ((match t_ts x with Some a => Nat.eqb a s | None => false end) || (match t_hold x with Some a => Nat.eqb a s | None => false end)).

(* two live tthreads share a stack *)
Definition holders (g : gst) (s : nat) : list nat := filter (fun t => holds (tthreads g t) s) (ids_desc (nthreads g)).
Definition shared (g : gst) : bool := existsb (fun s => Nat.ltb 1 (length (holders g s))) (ids_desc (nstacks g)).
(* a stack is marked in use although no live thread holds it: it can never be adopted again *)
Definition stranded (g : gst) : bool := existsb (fun s => used g s && Nat.eqb (length (holders g s)) 0) (ids_desc (nstacks g)).
