(* C16 / C05 bridge: the arenas and stacks return blocks newest-first (StackProofs.apply_calls, proved for every history incl.
   destruction with used and cached blocks); the LIFO-only block sources (static_block_allocator, virtual_block_allocator) report a
   block that is not the newest one out.  Here: a call sequence that keeps the newest-first discipline is never reported by such a
   source -- no false report on valid histories, whatever the history. *)
From Coq Require Import ZArith List Bool Lia.
From FM Require Import FixedStack Stack StackProofs InvalidRelease.
Import ListNotations.
Local Open Scope Z_scope.

(* the blocks a source has out, oldest first: base, base + bs, ... *)
Fixpoint lifo_blocks (base bs : Z) (n : nat) : list blk :=
  match n with O => [] | S k => lifo_blocks base bs k ++ [(base + Z.of_nat k * bs, bs)] end.

Definition lifo_consistent (s : lifo) (held : list blk) : Prop :=
  exists n, held = lifo_blocks (lf_base s) (lf_bs s) n /\ lf_cur s = lf_base s + Z.of_nat n * lf_bs s.

Inductive lrun := LRun (s : lifo) | LRep | LNotThisSource.
(* virt: virtual_block_allocator's test (address only), otherwise static_block_allocator's (address + size) *)
Definition lifo_dealloc (virt : bool) (s : lifo) (a size : Z) : lres := if virt then virtual_dealloc true s a else static_dealloc true s a size.
Fixpoint lifo_run (virt : bool) (s : lifo) (cs : list ucall) : lrun :=
  match cs with
  | [] => LRun s
  | UAlloc size (Some a) :: tl => if (a =? lf_cur s) && (size =? lf_bs s) then lifo_run virt (snd (lifo_alloc s)) tl else LNotThisSource
  | UAlloc _ None :: tl => lifo_run virt s tl
  | UFree a size :: tl => match lifo_dealloc virt s a size with LOk s' => lifo_run virt s' tl | LReported => LRep end
  end.

Theorem lifo_discipline_never_reported virt : forall cs s held held',
  lifo_consistent s held -> apply_calls held cs = Some held' ->
  lifo_run virt s cs = LNotThisSource \/ exists s', lifo_run virt s cs = LRun s' /\ lifo_consistent s' held'.
Proof.
  induction cs as [|c tl IH]; intros s held held' Hc Ha.
  - cbn in *. injection Ha as <-. right. exists s. split; [reflexivity|assumption].
  - destruct c as [size [a|]|a size]; cbn [apply_calls lifo_run] in *.
    + destruct ((a =? lf_cur s) && (size =? lf_bs s)) eqn:E; [|left; reflexivity].
      apply andb_true_iff in E as [E1 E2]. apply Z.eqb_eq in E1, E2. subst a size.
      assert (Hc' : lifo_consistent (snd (lifo_alloc s)) (held ++ [(lf_cur s, lf_bs s)])).
      { destruct Hc as (n & Hh & Hcur). exists (S n). cbn [lifo_alloc snd lf_base lf_bs lf_cur lifo_blocks]. split; [rewrite Hh, Hcur; reflexivity|lia]. }
      exact (IH _ _ _ Hc' Ha).
    + exact (IH _ _ _ Hc Ha).
    + destruct Hc as (n & Hh & Hcur). destruct n as [|k].
      * subst held. cbn in Ha. discriminate.
      * subst held. cbn [lifo_blocks] in Ha. rewrite rev_app_distr in Ha. cbn [rev app] in Ha.
        destruct ((lf_base s + Z.of_nat k * lf_bs s =? a) && (lf_bs s =? size)) eqn:E; [|discriminate].
        apply andb_true_iff in E as [E1 E2]. apply Z.eqb_eq in E1, E2. subst a size. rewrite rev_involutive in Ha.
        assert (Hd : lifo_dealloc virt s (lf_base s + Z.of_nat k * lf_bs s) (lf_bs s) =
                     LOk {| lf_base := lf_base s; lf_cur := lf_cur s - lf_bs s; lf_bs := lf_bs s |}).
        { unfold lifo_dealloc, virtual_dealloc, static_dealloc. destruct virt; cbn [andb].
          - destruct (Z.eqb_spec (lf_base s + Z.of_nat k * lf_bs s) (lf_cur s - lf_bs s)); [reflexivity|lia].
          - destruct (Z.eqb_spec (lf_base s + Z.of_nat k * lf_bs s + lf_bs s) (lf_cur s)); [reflexivity|lia]. }
        rewrite Hd.
        assert (Hc' : lifo_consistent {| lf_base := lf_base s; lf_cur := lf_cur s - lf_bs s; lf_bs := lf_bs s |} (lifo_blocks (lf_base s) (lf_bs s) k)).
        { exists k. cbn [lf_base lf_bs lf_cur]. split; [reflexivity|lia]. }
        exact (IH _ _ _ Hc' Ha).
Qed.

(* in particular: never LRep *)
Corollary lifo_discipline_no_false_report virt cs s held held' :
  lifo_consistent s held -> apply_calls held cs = Some held' -> lifo_run virt s cs <> LRep.
Proof.
  intros Hc Ha E. destruct (lifo_discipline_never_reported virt cs s held held' Hc Ha) as [H|(s' & H & _)]; rewrite H in E; discriminate.
Qed.

(* and the hypothesis is what the arena proofs deliver: the calls of any arena history followed by destruction keep the discipline *)
Example lifo_bridge_nonvacuous :
  let s0 := {| lf_base := 4096; lf_cur := 4096; lf_bs := 1024 |} in
  let cs := [UAlloc 1024 (Some 4096); UAlloc 1024 (Some 5120); UAlloc 1024 (Some 6144); UFree 6144 1024; UAlloc 1024 (Some 6144); UFree 6144 1024; UFree 5120 1024; UFree 4096 1024] in
  lifo_consistent s0 [] /\ apply_calls [] cs = Some [] /\ lifo_run false s0 cs = LRun s0 /\ lifo_run true s0 cs = LRun s0 /\
  lifo_run false s0 [UAlloc 1024 (Some 4096); UAlloc 1024 (Some 5120); UFree 4096 1024] = LRep.
Proof. cbv zeta. split; [exists 0%nat; split; reflexivity|]. repeat split; vm_compute; reflexivity. Qed.
