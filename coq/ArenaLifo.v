(* C16: an arena (and hence a memory_stack) over a LIFO-only block source never provokes a report of that source, whatever the
   history -- growth over any number of blocks, blocks going to the cache and coming back, shrink_to_fit, and destruction with used
   and cached blocks at once.  Composition of ArenaProofs.ar_history_balanced with LifoBridge. *)
From Coq Require Import ZArith List Bool Lia.
From FM Require Import FixedStack Stack StackProofs Arena ArenaProofs InvalidRelease LifoBridge.
Import ListNotations.
Local Open Scope Z_scope.

Theorem arena_over_lifo_source_never_reported virt cached base bs h :
  let s0 := {| lf_base := base; lf_cur := base; lf_bs := bs |} in
  let '(a', calls) := ar_run (ar_init AConst cached bs) h in
  lifo_run virt s0 (calls ++ ar_destroy_calls a') <> LRep.
Proof.
  cbv zeta. pose proof (ar_history_balanced h (ar_init AConst cached bs) (ar_init_wf AConst cached bs)) as B.
  destruct (ar_run (ar_init AConst cached bs) h) as [a' calls].
  apply (lifo_discipline_no_false_report virt _ _ [] []); [|exact B].
  exists 0%nat. cbn. split; [reflexivity|lia].
Qed.
