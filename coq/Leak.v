(* Leak accounting of the stateful arena allocators (detail::object_leak_checker): executable model. *)
From Coq Require Import ZArith List Bool Lia.
Import ListNotations.
Local Open Scope Z_scope.

Inductive lop :=
  | LAlloc (bytes : Z)            (* allocator_traits::allocate_node (size) / allocate_array (count*size) succeeded *)
  | LDealloc (bytes : Z)          (* allocator_traits::deallocate_* with the same quantity *)
  | LMoveConstruct                (* a new object is move-constructed from this one, which is then destroyed *)
  | LMoveAssignOnto (target : Z)  (* this object is move-assigned onto an object whose own count is target *)
  | LDestroy.

Record lstate := { l_count : Z; l_reports : list Z; l_dead : bool }.

Definition lstep (s : lstate) (o : lop) : lstate :=
  if l_dead s then s else
  match o with
  | LAlloc n => {| l_count := l_count s + n; l_reports := l_reports s; l_dead := false |}
  | LDealloc n => {| l_count := l_count s - n; l_reports := l_reports s; l_dead := false |}
  | LMoveConstruct => s      (* the count travels with the allocator; the moved-from object holds 0 and reports nothing *)
  | LMoveAssignOnto t =>
      {| l_count := l_count s; l_reports := l_reports s ++ (if t =? 0 then [] else [t]); l_dead := false |}
  | LDestroy => {| l_count := 0; l_reports := l_reports s ++ (if l_count s =? 0 then [] else [l_count s]); l_dead := true |}
  end.

Definition lrun (ops : list lop) : lstate := fold_left lstep ops {| l_count := 0; l_reports := []; l_dead := false |}.

Fixpoint net (ops : list lop) : Z :=
  match ops with
  | [] => 0
  | LAlloc n :: tl => n + net tl
  | LDealloc n :: tl => net tl - n
  | _ :: tl => net tl
  end.
Definition assigned_over (ops : list lop) : list Z :=
  flat_map (fun o => match o with LMoveAssignOnto t => if t =? 0 then [] else [t] | _ => [] end) ops.

(* ---------- the process-wide checker of the stateless low-level allocators (detail::global_leak_checker_impl) ---------- *)
(* one static counter object per translation unit that includes the allocator's header; all allocator objects share one
   count; the report is made by the destructor of the last counter object *)
Inductive gop := GCounterCtor | GCounterDtor | GAllocd (n : Z) | GDeallocd (n : Z).
Record gstate := { g_refs : nat; g_alloc : Z; g_reports : list Z }.
Definition gl_step (s : gstate) (o : gop) : gstate :=
  match o with
  | GCounterCtor => {| g_refs := S (g_refs s); g_alloc := g_alloc s; g_reports := g_reports s |}
  | GCounterDtor =>
      {| g_refs := pred (g_refs s); g_alloc := g_alloc s;
         g_reports := g_reports s ++ (if Nat.eqb (pred (g_refs s)) 0 && negb (g_alloc s =? 0) then [g_alloc s] else []) |}
  | GAllocd n => {| g_refs := g_refs s; g_alloc := g_alloc s + n; g_reports := g_reports s |}
  | GDeallocd n => {| g_refs := g_refs s; g_alloc := g_alloc s - n; g_reports := g_reports s |}
  end.
Definition gl_run (ops : list gop) : gstate := fold_left gl_step ops {| g_refs := 0; g_alloc := 0; g_reports := [] |}.
(* what lowlevel_allocator counts for a node of `size` bytes: the size it asks its functor for *)
Definition ll_actual (fence_on : bool) (max_al size : Z) : Z := size + (if fence_on then 2 * max_al else 0).
Fixpoint gnet (ops : list gop) : Z :=
  match ops with
  | [] => 0
  | GAllocd n :: tl => n + gnet tl
  | GDeallocd n :: tl => gnet tl - n
  | _ :: tl => gnet tl
  end.
Definition is_traffic (o : gop) : bool := match o with GAllocd _ | GDeallocd _ => true | _ => false end.
