(* Leak accounting of the stateful arena allocators (detail::object_leak_checker): executable model. *)
From Coq Require Import ZArith List Bool Lia.
Import ListNotations.
Local Open Scope Z_scope.

Inductive lop :=
  | LAlloc (bytes : Z)            (* allocator_traits::allocate_node (size) / allocate_array (count*size) succeeded *)
  | LDealloc (bytes : Z)          (* allocator_traits::deallocate_* with the same quantity *)
  | LMoveConstruct                (* a new object is move-constructed from this one, which is then destroyed *)
  | LMoveAssignOnto (target : Z)  (* this object is move-assigned onto an object whose own count is target *)
  | LDestroy.

Record lstate := { l_count : Z; l_reports : list Z; l_dead : bool }.

Definition lstep (s : lstate) (o : lop) : lstate :=
  if l_dead s then s else
  match o with
  | LAlloc n => {| l_count := l_count s + n; l_reports := l_reports s; l_dead := false |}
  | LDealloc n => {| l_count := l_count s - n; l_reports := l_reports s; l_dead := false |}
  | LMoveConstruct => s      (* the count travels with the allocator; the moved-from object holds 0 and reports nothing *)
  | LMoveAssignOnto t =>
      {| l_count := l_count s; l_reports := l_reports s ++ (if t =? 0 then [] else [t]); l_dead := false |}
  | LDestroy => {| l_count := 0; l_reports := l_reports s ++ (if l_count s =? 0 then [] else [l_count s]); l_dead := true |}
  end.

Definition lrun (ops : list lop) : lstate := fold_left lstep ops {| l_count := 0; l_reports := []; l_dead := false |}.

Fixpoint net (ops : list lop) : Z :=
  match ops with
  | [] => 0
  | LAlloc n :: tl => n + net tl
  | LDealloc n :: tl => net tl - n
  | _ :: tl => net tl
  end.
Definition assigned_over (ops : list lop) : list Z :=
  flat_map (fun o => match o with LMoveAssignOnto t => if t =? 0 then [] else [t] | _ => [] end) ops.
