(* C13 obligations computed on the call-shape table regenerated from allocator_storage.hpp / threading.hpp. *)
From Coq Require Import String List Bool.
From FM Require Import GenShapes ShapesLib.
Import ListNotations.
Local Open Scope string_scope.

Definition forwarding_names : list string :=
  ["allocate_node"; "allocate_array"; "deallocate_node"; "deallocate_array"; "max_node_size"; "max_array_size"; "max_alignment";
   "try_allocate_node"; "try_allocate_array"; "try_deallocate_node"; "try_deallocate_array"].

(* every forwarding member of allocator_storage exists, forwards to the same-named traits function on the wrapped
   allocator, and declares its lock_guard before that call *)
Definition storage_member_ok (n : string) : bool :=
  let ms := mem_of "allocator_storage" n in
  negb (is_nil ms) &&
  forallb (fun m => has_call_named n m && locked_before forwarding_names false (m_events m)) ms.

Definition lock_table_ok : bool := forallb storage_member_ok forwarding_names.

(* no other member of allocator_storage reaches the wrapped allocator through a traits function *)
Definition no_unlisted_forwarder : bool :=
  forallb (fun m => if seqb (m_class m) "allocator_storage" && negb (smem (m_name m) forwarding_names)
                    then negb (existsb (fun x => smem (fst x) forwarding_names) (calls_of m)) else true) members.

(* lock(): hands the allocator and the mutex (the storage object itself) to the locking proxy *)
Definition lock_member_ok : bool :=
  let ms := mem_of "allocator_storage" "lock" in
  negb (is_nil ms) && forallb (fun m => existsb (fun x => seqb (fst x) "lock_allocator" && smem "*this" (snd x)) (calls_of m)) ms.

(* the proxy: locks in its constructor, unlocks in its destructor iff it still refers to the mutex, and a move
   leaves the source without the mutex *)
Definition proxy_ok : bool :=
  existsb (fun m => seqb (m_class m) "locked_allocator" && slist_eqb (m_params m) ["alloc"; "m"] && has_call_named "mutex_.lock" m) members &&
  existsb (fun m => seqb (m_class m) "locked_allocator" && slist_eqb (m_params m) ["other"] && has_assign "other.mutex_" "nullptr" m) members &&
  existsb (fun m => seqb (m_class m) "locked_allocator" && is_nil (m_params m) && has_if "mutex_" m &&
                    existsb (fun x => seqb (fst x) "mutex_.unlock") (calls_in (inside_if "mutex_" (m_events m)))) members.

Theorem lock_table_holds : lock_table_ok && no_unlisted_forwarder && lock_member_ok && proxy_ok = true.
Proof. vm_compute. reflexivity. Qed.
