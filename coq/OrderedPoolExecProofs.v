(* The Exec model of memory_pool over the address-ordered list (array_pool; node_pool with the double-free check) refines the
   Spec, for every upstream answer that is a fresh aligned block with room for a node, over every history. *)
From Coq Require Import ZArith NArith List Bool Lia Permutation.
From FM Require Import Wrap GenArith FixedStack SmallCarve PoolSpec SlotProofs ListLib PoolSpecProofs PoolAlignProofs Stack Arena
     OrderedList OrderedListProofs UnorderedList UnorderedListProofs UnorderedRefine OrderedRefine OrderedPoolExec.
Import ListNotations.
Local Open Scope Z_scope.

Definition OPR (s : opool) (sp : ast) : Prop :=
  exists l, a_lists sp = [l] /\ Inv sp /\ OR (op_g s) {| us_rs := a_ranges sp; us_l := l |} /\
            a_held sp = ar_used (op_ar s) /\ ar_cache (op_ar s) = [] /\ ar_cached (op_ar s) = false.

Definition OWB (sp : ast) (addr size : Z) : Prop :=
  (0 <? addr) && (hdrZ <? size) && (addr mod maxalZ =? 0) && forallb (r_disj (addr, size)) (a_held sp) = true.

Lemma ohdr_eq : hdrZ = hdr /\ hdr = 16 /\ maxalZ = 16.
Proof. repeat split; vm_compute; reflexivity. Qed.
Lemma osingle_find l : find_list (l_ns l) [l] = Some l.
Proof. cbn. rewrite Z.eqb_refl. reflexivity. Qed.
Lemma osingle_set l l' : l_ns l' = l_ns l -> set_list l' [l] = [l'].
Proof. intros E. cbn. rewrite E, Z.eqb_refl. reflexivity. Qed.
Lemma list_of_OR g rs l : OR g {| us_rs := rs; us_l := l |} -> l = ul (nsz (og_l g)) (og_live g) (o_capacity (og_l g)).
Proof. intros (_ & Hl & _). exact Hl. Qed.

Lemma oknown_inside g rs l a : OR g {| us_rs := rs; us_l := l |} ->
  In a (ulive_slots (nsz (og_l g)) (og_live g) ++ nodes (og_l g)) ->
  exists r, In (nsz (og_l g), r) rs /\ fst r <= a /\ a + nsz (og_l g) <= fst r + snd r.
Proof.
  intros (Hinv & Hl & Hnd & Hiff & Hap) Ha. cbn [us_rs us_l] in *. apply Hiff in Ha. unfold uslotb, slot_of in Ha.
  apply existsb_exists in Ha. destruct Ha as [[t r] [Hx Hs]]. cbn [fst snd ul l_ns l_kind] in Hs. apply andb_prop in Hs. destruct Hs as [Ht Hs].
  apply Z.eqb_eq in Ht. subst t. exists r. split; [exact Hx|]. destruct Hinv as (_ & _ & _ & Hns). apply slot_inside_intr; assumption.
Qed.

Lemma o_alloc_nsz l x l' : o_alloc l = Some (x, l') -> nsz l' = nsz l.
Proof. unfold o_alloc. destruct (nodes l); [discriminate|]. intros H; inversion H; reflexivity. Qed.
Lemma o_alloc_array_nsz l bytes x l' : o_alloc_array l bytes = Some (x, l') -> nsz l' = nsz l.
Proof.
  unfold o_alloc_array. destruct (bytes <=? nsz l); [apply o_alloc_nsz|].
  destruct (find_run _ _ _ _ _); [|discriminate]. intros H; inversion H; reflexivity.
Qed.

(* taking a node or an array from the list *)
Lemma otake_refines s sp bytes s' x : OPR s sp -> op_take s bytes = Some (s', x) ->
  exists l l', a_lists sp = [l] /\ l_ns l = op_ns s /\ take_slots (a_ranges sp) l x (slots_needed (op_ns s) bytes) = Some l' /\
               OPR s' {| a_lists := [l']; a_ranges := a_ranges sp; a_held := a_held sp |} /\ op_ns s' = op_ns s.
Proof.
  intros (l & Hls & Hinv & Hur & Hheld & Hc & Hcd) Hstep. unfold op_take in Hstep.
  pose proof (list_of_OR _ _ _ Hur) as El. assert (Ens : l_ns l = op_ns s) by (rewrite El; reflexivity).
  pose proof Hur as (Huinv & _). destruct Huinv as (_ & _ & _ & Hns).
  destruct (nodes (og_l (op_g s))) as [|n0 ntl] eqn:En; [discriminate|].
  destruct (o_alloc_array (og_l (op_g s)) bytes) as [[x0 l2]|] eqn:Ea; [|discriminate]. inversion Hstep; subst s' x0; clear Hstep.
  assert (Hfin : forall k, ogstep false false (op_g s) k = Some ({| og_l := l2; og_live := (x, slots_needed (nsz (og_l (op_g s))) bytes) :: og_live (op_g s) |}, Some x) ->
                 us_step {| us_rs := a_ranges sp; us_l := l |} (o_us_op k) (Some x) =
                   match take_slots (a_ranges sp) l x (slots_needed (op_ns s) bytes) with Some l' => Some {| us_rs := a_ranges sp; us_l := l' |} | None => None end ->
                 exists l0 l', a_lists sp = [l0] /\ l_ns l0 = op_ns s /\ take_slots (a_ranges sp) l0 x (slots_needed (op_ns s) bytes) = Some l' /\
                   OPR {| op_ar := op_ar s; op_g := {| og_l := l2; og_live := (x, slots_needed (nsz (og_l (op_g s))) bytes) :: og_live (op_g s) |} |}
                      {| a_lists := [l']; a_ranges := a_ranges sp; a_held := a_held sp |} /\
                   op_ns {| op_ar := op_ar s; op_g := {| og_l := l2; og_live := (x, slots_needed (nsz (og_l (op_g s))) bytes) :: og_live (op_g s) |} |} = op_ns s).
  { intros k Hk Hus. destruct (ostep_refines _ _ _ _ _ _ _ Hur Hk) as (u' & Hu & Hur'). rewrite Hus in Hu.
    destruct (take_slots (a_ranges sp) l x (slots_needed (op_ns s) bytes)) as [l'|] eqn:T; [|discriminate]. inversion Hu; subst u'; clear Hu.
    exists l, l'. split; [exact Hls|]. split; [exact Ens|]. split; [exact T|].
    assert (Ens' : l_ns l' = l_ns l) by (unfold take_slots in T; destruct (_ && _) in T; [|discriminate]; inversion T; reflexivity).
    assert (Hacc : acc_op sp (OAlloc true true (op_ns s) bytes) [] (ObsOk x) = Some (with_list sp l')).
    { unfold acc_op. rewrite Hls, <- Ens, osingle_find. cbn [negb andb orb existsb acc_evs]. rewrite Hls, osingle_find. rewrite Ens, T. reflexivity. }
    pose proof (acc_op_inv _ _ _ _ _ Hinv Hacc) as Hinv'.
    assert (Hw : with_list sp l' = {| a_lists := [l']; a_ranges := a_ranges sp; a_held := a_held sp |}) by (unfold with_list; rewrite Hls, (osingle_set l l' Ens'); reflexivity).
    rewrite Hw in Hinv'. split.
    - exists l'. cbn [a_lists a_ranges a_held op_g op_ar]. split; [reflexivity|]. split; [exact Hinv'|]. split; [exact Hur'|]. split; [exact Hheld|]. split; assumption.
    - unfold op_ns. cbn [op_g og_l]. exact (o_alloc_array_nsz _ _ _ _ Ea). }
  destruct (Z.leb_spec bytes (nsz (og_l (op_g s)))) as [Hb|Hb].
  - apply (Hfin OAllocN).
    + unfold o_alloc_array in Ea. destruct (Z.leb_spec bytes (nsz (og_l (op_g s)))); [|lia].
      cbn [ogstep]. rewrite Ea. unfold slots_needed. destruct (Z.leb_spec bytes (nsz (og_l (op_g s)))); [reflexivity|lia].
    + cbn [us_step us_l us_rs o_us_op]. unfold slots_needed, op_ns. destruct (Z.leb_spec bytes (nsz (og_l (op_g s)))); [reflexivity|lia].
  - apply (Hfin (OAllocArr bytes)).
    + cbn [ogstep]. destruct (Z.ltb_spec (nsz (og_l (op_g s))) bytes); [|lia]. rewrite Ea.
      destruct (onodes_for_slots (og_l (op_g s)) bytes Hns Hb) as [Hsn _]. rewrite Hsn. reflexivity.
    + cbn [us_step us_l us_rs o_us_op]. rewrite Ens. reflexivity.
Qed.

Lemma ogrow_ns s answer s1 ok evs : op_grow s answer = (s1, ok, evs) -> op_ns s1 = op_ns s.
Proof.
  unfold op_grow, op_ns. destruct (astep (op_ar s) ABlock answer) as [[a' out] calls]. destruct out; try (intros H; inversion H; reflexivity).
  unfold ol_insert. destruct (o_insert false false (og_l (op_g s)) mem size) as [l1| | | |] eqn:E; intros H; inversion H; try reflexivity.
  cbn [op_g og_l]. unfold o_insert in E. destruct (find_pos false false (og_l (op_g s)) mem); try discriminate. inversion E; reflexivity.
Qed.

Theorem ogrow_refines s sp answer s1 ok evs : OPR s sp -> 0 < op_ns s < 2^64 ->
  (forall addr, answer = Some addr -> OWB sp addr (ar_next (op_ar s)) /\ op_ns s <= ar_next (op_ar s) - hdr) ->
  op_grow s answer = (s1, ok, evs) ->
  exists sp1, acc_evs sp evs = Some sp1 /\ OPR s1 sp1 /\
              (ok = true -> nodes (og_l (op_g s1)) <> []) /\ (ok = false -> s1 = s /\ sp1 = sp).
Proof.
  intros (l & Hls & Hinv & Hur & Hheld & Hc & Hcd) Hnsr Hwb Hstep. unfold op_grow in Hstep.
  pose proof (list_of_OR _ _ _ Hur) as El. assert (Ens : l_ns l = op_ns s) by (rewrite El; reflexivity).
  destruct ohdr_eq as (Eh & Eh16 & Emax).
  unfold astep in Hstep. rewrite Hc in Hstep.
  destruct (match ar_kind (op_ar s) with AFixed => (ar_next (op_ar s) =? 0) | _ => false end) eqn:Hfix.
  { assert (Hs : (s1, ok, evs) = ({| op_ar := op_ar s; op_g := op_g s |}, false, [])).
    { rewrite <- Hstep. destruct (ar_kind (op_ar s)); try discriminate. rewrite Hfix. reflexivity. }
    inversion Hs; subst s1 ok evs; clear Hs Hstep. exists sp. cbn [acc_evs]. split; [reflexivity|].
    assert (Es : {| op_ar := op_ar s; op_g := op_g s |} = s) by (destruct s; reflexivity). rewrite Es.
    split; [exists l; split; [exact Hls|]; split; [exact Hinv|]; split; [exact Hur|]; split; [exact Hheld|]; split; assumption|].
    split; [discriminate|intros _; split; reflexivity]. }
  destruct answer as [x|].
  - destruct (Hwb x eq_refl) as [Hw Hroom].
    assert (Hstep' : (s1, ok, evs) =
      match ol_insert (og_l (op_g s)) (x + hdr) (ar_next (op_ar s) - hdr) with
      | Some l1 => ({| op_ar := ar_set (op_ar s) ((x, ar_next (op_ar s)) :: ar_used (op_ar s)) [] (match ar_kind (op_ar s) with AGrow => 2 * ar_next (op_ar s) | AFixed => 0 | AConst => ar_next (op_ar s) end);
                       op_g := {| og_l := l1; og_live := og_live (op_g s) |} |}, true, [EUp x (ar_next (op_ar s)); EIns (op_ns s) (x + hdr) (ar_next (op_ar s) - hdr)])
      | None => ({| op_ar := ar_set (op_ar s) ((x, ar_next (op_ar s)) :: ar_used (op_ar s)) [] (match ar_kind (op_ar s) with AGrow => 2 * ar_next (op_ar s) | AFixed => 0 | AConst => ar_next (op_ar s) end);
                    op_g := op_g s |}, false, [EUp x (ar_next (op_ar s))])
      end).
    { rewrite <- Hstep. unfold b_mem, b_usable. cbn [fst snd].
      destruct (ar_kind (op_ar s)); try (rewrite Hfix);
        replace (x + hdr - hdrZ) with x by lia; replace (ar_next (op_ar s) - hdr + hdrZ) with (ar_next (op_ar s)) by lia; reflexivity. }
    set (nx := ar_next (op_ar s)) in *. set (ns := op_ns s) in *. set (m := x + hdr) in *. set (sz := nx - hdr) in *.
    clear Hstep.
    assert (Hup : acc_ev sp (EUp x nx) = Some {| a_lists := a_lists sp; a_ranges := a_ranges sp; a_held := (x, nx) :: a_held sp |}).
    { cbn [acc_ev]. unfold OWB in Hw. rewrite Hw. reflexivity. }
    set (sp1 := {| a_lists := a_lists sp; a_ranges := a_ranges sp; a_held := (x, nx) :: a_held sp |}) in *.
    unfold OWB in Hw. apply andb_prop in Hw. destruct Hw as [Hw W4]. apply andb_prop in Hw. destruct Hw as [Hw W3]. apply andb_prop in Hw. destruct Hw as [W1 W2].
    apply Z.ltb_lt in W1. apply Z.ltb_lt in W2. apply Z.eqb_eq in W3. rewrite forallb_forall in W4.
    assert (Hfresh : forall y, In y (a_ranges sp) -> rng_disj (m, sz) (snd y)).
    { intros y Hy. destruct Hinv as [_ _ _ _ _ Ii]. rewrite Forall_forall in Ii. destruct (Ii y Hy) as (b & Hb & Hin).
      specialize (W4 b Hb). apply r_disj_spec in W4. unfold rng_disj, rng_inside, usable in *. cbn [fst snd] in *. unfold m, sz. lia. }
    assert (Hq : 1 <= sz / ns) by (apply Z.div_le_lower_bound; unfold sz, ns in *; lia).
    assert (Hpre : forallb (outside m (sz / ns) ns) (ulive_slots ns (og_live (op_g s)) ++ nodes (og_l (op_g s))) = true).
    { apply forallb_forall. intros a Ha. destruct (oknown_inside _ _ _ a Hur Ha) as (rr & Hr & R1 & R2). change (nsz (og_l (op_g s))) with ns in Hr, R2.
      specialize (Hfresh (ns, rr) Hr). unfold rng_disj in Hfresh. cbn [fst snd] in Hfresh. unfold outside.
      pose proof (Z.mul_div_le sz ns ltac:(lia)). apply orb_true_intro. destruct Hfresh as [F|F]; [right; apply Z.leb_le; nia|left; apply Z.leb_le; lia]. }
    (* the list accepts the block *)
    destruct (ogstep false false (op_g s) (OIns m sz)) as [[g1 res1]|] eqn:Hg1.
    2:{ exfalso. cbn [ogstep] in Hg1. change (nsz (og_l (op_g s))) with ns in Hg1. rewrite Hpre in Hg1. destruct (Z.leb_spec 1 (sz / ns)); [|lia]. cbn [andb] in Hg1.
        pose proof Hur as (Hoinv & _).
        assert (Hfree : forall y, In y (nodes (og_l (op_g s))) -> y < m \/ m + Z.of_nat (Z.to_nat (sz / nsz (og_l (op_g s)))) * nsz (og_l (op_g s)) <= y).
        { intros y Hy. change (nsz (og_l (op_g s))) with ns. rewrite Z2Nat.id by lia. rewrite forallb_forall in Hpre. specialize (Hpre y ltac:(apply in_or_app; right; exact Hy)).
          unfold outside in Hpre. apply orb_prop in Hpre. destruct Hpre as [H0|H0]; apply Z.leb_le in H0; [left; lia|right; exact H0]. }
        destruct (insert_valid false false (og_l (op_g s)) m sz Hoinv ltac:(change (nsz (og_l (op_g s))) with ns; lia) Hfree) as (l' & El' & _).
        rewrite El' in Hg1. discriminate. }
    assert (Eg1 : exists l1, ol_insert (og_l (op_g s)) m sz = Some l1 /\ g1 = {| og_l := l1; og_live := og_live (op_g s) |} /\ res1 = None).
    { cbn [ogstep] in Hg1. change (nsz (og_l (op_g s))) with ns in Hg1. rewrite Hpre in Hg1. destruct (Z.leb_spec 1 (sz / ns)); [|lia]. cbn [andb] in Hg1.
      unfold ol_insert. destruct (o_insert false false (og_l (op_g s)) m sz) as [l1| | | |]; try discriminate. inversion Hg1. exists l1. repeat split. }
    destruct Eg1 as (l1 & Eins & -> & ->). rewrite Eins in Hstep'. inversion Hstep'; subst s1 ok evs; clear Hstep'.
    destruct (ostep_refines _ _ _ _ _ _ _ Hur Hg1) as (u1 & Hu1 & Hur1). cbn [us_step us_l us_rs o_us_op] in Hu1. inversion Hu1; subst u1; clear Hu1.
    rewrite Ens in Hur1. fold ns in Hur1.
    set (ll1 := {| l_kind := l_kind l; l_ns := ns; l_allocs := l_allocs l; l_nfree := l_nfree l + nodes_of (l_kind l) ns (m, sz) |}) in *.
    assert (Hkind : l_kind l = LIntrusive) by (rewrite El; reflexivity).
    assert (Hins : acc_ev sp1 (EIns ns m sz) = Some {| a_lists := [ll1]; a_ranges := (ns, (m, sz)) :: a_ranges sp; a_held := (x, nx) :: a_held sp |}).
    { cbn [acc_ev]. unfold sp1 at 1. cbn [a_lists]. rewrite Hls. rewrite <- Ens at 1. rewrite osingle_find.
      assert (Hn : 0 <? nodes_of (l_kind l) ns (m, sz) = true) by (rewrite Hkind; unfold nodes_of, l_nodes; cbn [snd]; apply Z.ltb_lt; lia).
      assert (Hrok : range_ok sp1 (m, sz) = true).
      { unfold range_ok. cbn [snd fst]. apply andb_true_intro. split; [apply andb_true_intro; split|].
        - apply Z.ltb_lt. unfold sz, ns in *. lia.
        - apply existsb_exists. exists (x, nx). split; [left; reflexivity|]. apply r_inside_spec. unfold rng_inside, usable. cbn [fst snd]. unfold m, sz. lia.
        - apply forallb_forall. intros y Hy. apply r_disj_spec. apply Hfresh. exact Hy. }
      assert (Hal : (m mod (match l_kind l with LIntrusive => al_of ns | LSmall => maxalZ end) =? 0) = true).
      { rewrite Hkind. apply Z.eqb_eq. destruct (al_of_cases ns Hnsr) as [Hcases _]. unfold m. rewrite Eh16.
        assert (x mod 16 = 0) by lia. apply Z.mod_divide in H; [|lia]. destruct H as [q Hq'].
        destruct Hcases as [->|[->|[->|[->| ->]]]]; apply Z.mod_divide; try lia; [exists (16 * q + 16)|exists (8 * q + 8)|exists (4 * q + 4)|exists (2 * q + 2)|exists (q + 1)]; lia. }
      rewrite Hn, Hrok, Hal. cbn [andb]. unfold sp1. cbn [a_lists a_ranges a_held]. rewrite Hls. fold ll1. rewrite (osingle_set l ll1 ltac:(unfold ll1; cbn [l_ns]; lia)). reflexivity. }
    set (sp2 := {| a_lists := [ll1]; a_ranges := (ns, (m, sz)) :: a_ranges sp; a_held := (x, nx) :: a_held sp |}) in *.
    assert (Hevs : acc_evs sp [EUp x nx; EIns ns m sz] = Some sp2) by (cbn [acc_evs]; rewrite Hup, Hins; reflexivity).
    exists sp2. split; [exact Hevs|]. split.
    { exists ll1. pose proof (acc_evs_inv _ _ _ Hinv Hevs) as Hinv2. unfold sp2 in *. cbn [a_lists a_ranges a_held op_g op_ar ar_set ar_used ar_cache ar_cached]. split; [reflexivity|]. split; [exact Hinv2|]. split; [exact Hur1|].
      split; [rewrite Hheld; reflexivity|]. split; [reflexivity|exact Hcd]. }
    split; [|discriminate]. intros _. cbn [op_g og_l].
    (* the new list has the block's nodes *)
    pose proof Hur as (Hoinv & _).
    assert (Hfree : forall y, In y (nodes (og_l (op_g s))) -> y < m \/ m + Z.of_nat (Z.to_nat (sz / nsz (og_l (op_g s)))) * nsz (og_l (op_g s)) <= y).
    { intros y Hy. change (nsz (og_l (op_g s))) with ns. rewrite Z2Nat.id by lia. rewrite forallb_forall in Hpre. specialize (Hpre y ltac:(apply in_or_app; right; exact Hy)).
      unfold outside in Hpre. apply orb_prop in Hpre. destruct Hpre as [H0|H0]; apply Z.leb_le in H0; [left; lia|right; exact H0]. }
    destruct (insert_valid false false (og_l (op_g s)) m sz Hoinv ltac:(change (nsz (og_l (op_g s))) with ns; lia) Hfree) as (l' & El' & _ & _ & _ & Hn').
    unfold ol_insert in Eins. rewrite El' in Eins. inversion Eins; subst l'. intros E0. unfold n_of in Hn'. rewrite E0 in Hn'. cbn [length] in Hn'.
    change (nsz (og_l (op_g s))) with ns in Hn'. lia.
  - assert (Hs : (s1, ok, evs) = ({| op_ar := op_ar s; op_g := op_g s |}, false, [EUpFail])).
    { rewrite <- Hstep. destruct (ar_kind (op_ar s)); try (rewrite Hfix); reflexivity. }
    inversion Hs; subst s1 ok evs; clear Hs Hstep. exists sp. split; [reflexivity|].
    assert (Es : {| op_ar := op_ar s; op_g := op_g s |} = s) by (destruct s; reflexivity). rewrite Es.
    split; [exists l; split; [exact Hls|]; split; [exact Hinv|]; split; [exact Hur|]; split; [exact Hheld|]; split; assumption|].
    split; [discriminate|intros _; split; reflexivity].
Qed.

Lemma opr_list s sp : OPR s sp -> exists l, a_lists sp = [l] /\ l_ns l = op_ns s /\ l_nfree l = o_capacity (og_l (op_g s)).
Proof. intros (l & Hls & _ & Hr & _). exists l. split; [exact Hls|]. rewrite (list_of_OR _ _ _ Hr). split; reflexivity. Qed.

Lemma oacc_unfold sp l ns try_ arr bytes evs x sp1 l1 l' :
  a_lists sp = [l] -> l_ns l = ns -> ((negb arr && (0 <? l_nfree l) && existsb is_grow evs) || (try_ && existsb is_up evs) = false) ->
  acc_evs sp evs = Some sp1 -> a_lists sp1 = [l1] -> l_ns l1 = ns -> take_slots (a_ranges sp1) l1 x (slots_needed ns bytes) = Some l' ->
  acc_op sp (OAlloc try_ arr ns bytes) evs (ObsOk x) = Some (with_list sp1 l').
Proof.
  intros Hls Ens Hg Hev Hls1 Ens1 T. unfold acc_op. rewrite Hls, <- Ens, osingle_find. rewrite Hg.
  rewrite Hev, Hls1. rewrite Ens, <- Ens1, osingle_find. rewrite Ens1, T. reflexivity.
Qed.

(* one allocation: from the list if it can serve it, else after one growth (never for the composable members) *)
Theorem oalloc_refines s sp arr bytes answer s' r evs : OPR s sp -> 0 < op_ns s < 2^64 ->
  (forall addr, answer = Some addr -> OWB sp addr (ar_next (op_ar s)) /\ op_ns s <= ar_next (op_ar s) - hdr) ->
  (arr = false -> bytes = op_ns s) ->
  (if arr then op_alloc_array s bytes answer else op_alloc_node s answer) = (s', r, evs) ->
  exists sp', acc_op sp (OAlloc false arr (op_ns s) bytes) evs r = Some sp' /\ OPR s' sp'.
Proof.
  intros Hpr Hns Hwb Hb Hstep. destruct (opr_list _ _ Hpr) as (l & Hls & Ens & Enf).
  assert (Htake : forall s1 x, op_take s bytes = Some (s1, x) -> exists sp', acc_op sp (OAlloc false arr (op_ns s) bytes) [] (ObsOk x) = Some sp' /\ OPR s1 sp').
  { intros s1 x E. destruct (otake_refines s sp bytes s1 x Hpr E) as (l0 & l' & Hls0 & Ens0 & T & Hpr' & _).
    rewrite Hls in Hls0. inversion Hls0; subst l0.
    assert (Ens' : l_ns l' = l_ns l) by (unfold take_slots in T; destruct (_ && _) in T; [|discriminate]; inversion T; reflexivity).
    assert (Hw : with_list sp l' = {| a_lists := [l']; a_ranges := a_ranges sp; a_held := a_held sp |}) by (unfold with_list; rewrite Hls, (osingle_set l l' Ens'); reflexivity).
    eexists. split; [|exact Hpr']. rewrite <- Hw.
    apply (oacc_unfold sp l (op_ns s) false arr bytes [] x sp l l' Hls Ens); [cbn [existsb]; rewrite andb_false_r; reflexivity|reflexivity|exact Hls|exact Ens|exact T]. }
  assert (Hgrowpath : forall (Hempty : arr = false -> nodes (og_l (op_g s)) = []),
     (match op_grow s answer with
      | (s1, true, evs1) => match op_take s1 bytes with Some (s2, x) => (s2, ObsOk x, evs1) | None => (s1, ObsThrow, evs1) end
      | (s1, false, evs1) => (s1, ObsThrow, evs1)
      end) = (s', r, evs) -> exists sp', acc_op sp (OAlloc false arr (op_ns s) bytes) evs r = Some sp' /\ OPR s' sp').
  { intros Hempty Hst. destruct (op_grow s answer) as [[s1 ok] evs1] eqn:G.
    destruct (ogrow_refines s sp answer s1 ok evs1 Hpr Hns Hwb G) as (sp1 & Hevs & Hpr1 & Hok & Hno).
    assert (Hguard : (negb arr && (0 <? l_nfree l) && existsb is_grow evs1) || (false && existsb is_up evs1) = false).
    { destruct arr; [reflexivity|]. rewrite Enf. unfold o_capacity, n_of. rewrite (Hempty eq_refl). reflexivity. }
    assert (Hthrow : acc_op sp (OAlloc false arr (op_ns s) bytes) evs1 ObsThrow = Some sp1).
    { unfold acc_op. rewrite Hls, <- Ens, osingle_find. rewrite Hguard, Hevs. reflexivity. }
    destruct ok.
    - destruct (op_take s1 bytes) as [[s2 x]|] eqn:E2; inversion Hst; subst s' r evs; clear Hst.
      + destruct (otake_refines s1 sp1 bytes s2 x Hpr1 E2) as (l1 & l' & Hls1 & Ens1 & T & Hpr' & _). rewrite (ogrow_ns _ _ _ _ _ G) in Ens1, T.
        assert (Ens' : l_ns l' = l_ns l1) by (unfold take_slots in T; destruct (_ && _) in T; [|discriminate]; inversion T; reflexivity).
        assert (Hw : with_list sp1 l' = {| a_lists := [l']; a_ranges := a_ranges sp1; a_held := a_held sp1 |}) by (unfold with_list; rewrite Hls1, (osingle_set l1 l' Ens'); reflexivity).
        eexists. split; [|exact Hpr']. rewrite <- Hw.
        apply (oacc_unfold sp l (op_ns s) false arr bytes evs1 x sp1 l1 l' Hls Ens Hguard Hevs Hls1 Ens1 T).
      + exists sp1. split; [exact Hthrow|exact Hpr1].
    - inversion Hst; subst s' r evs; clear Hst. exists sp1. split; [exact Hthrow|exact Hpr1]. }
  destruct arr.
  - unfold op_alloc_array in Hstep. destruct (op_take s bytes) as [[s1 x]|] eqn:E.
    + inversion Hstep; subst s' r evs. exact (Htake s1 x eq_refl).
    + apply Hgrowpath; [discriminate|exact Hstep].
  - specialize (Hb eq_refl). subst bytes. unfold op_alloc_node in Hstep. destruct (op_take s (op_ns s)) as [[s1 x]|] eqn:E.
    + inversion Hstep; subst s' r evs. exact (Htake s1 x eq_refl).
    + destruct (nodes (og_l (op_g s))) as [|n0 ntl] eqn:En.
      * apply Hgrowpath; [intros _; reflexivity|exact Hstep].
      * exfalso. unfold op_take in E. rewrite En in E. unfold o_alloc_array in E. unfold op_ns in E. rewrite Z.leb_refl in E. unfold o_alloc in E. rewrite En in E. discriminate.
Qed.

Theorem otry_alloc_refines s sp arr bytes s' r evs : OPR s sp -> (arr = false -> bytes = op_ns s) ->
  (if arr then op_try_alloc_array s bytes else op_try_alloc_node s) = (s', r, evs) ->
  exists sp', acc_op sp (OAlloc true arr (op_ns s) bytes) evs r = Some sp' /\ OPR s' sp'.
Proof.
  intros Hpr Hb Hstep. destruct (opr_list _ _ Hpr) as (l & Hls & Ens & Enf).
  assert (Hstep' : (match op_take s bytes with Some (s1, x) => (s1, ObsOk x, []) | None => (s, ObsNull, []) end) = (s', r, evs)).
  { destruct arr; [exact Hstep|]. rewrite (Hb eq_refl). exact Hstep. }
  clear Hstep. destruct (op_take s bytes) as [[s1 x]|] eqn:E; inversion Hstep'; subst s' r evs; clear Hstep'.
  - destruct (otake_refines s sp bytes s1 x Hpr E) as (l0 & l' & Hls0 & Ens0 & T & Hpr' & _).
    rewrite Hls in Hls0. inversion Hls0; subst l0.
    assert (Ens' : l_ns l' = l_ns l) by (unfold take_slots in T; destruct (_ && _) in T; [|discriminate]; inversion T; reflexivity).
    assert (Hw : with_list sp l' = {| a_lists := [l']; a_ranges := a_ranges sp; a_held := a_held sp |}) by (unfold with_list; rewrite Hls, (osingle_set l l' Ens'); reflexivity).
    eexists. split; [|exact Hpr']. rewrite <- Hw.
    apply (oacc_unfold sp l (op_ns s) true arr bytes [] x sp l l' Hls Ens); [cbn [existsb]; rewrite !andb_false_r; reflexivity|reflexivity|exact Hls|exact Ens|exact T].
  - (* refused: for a single node only when the list is empty *)
    exists sp. split; [|exact Hpr]. unfold acc_op. rewrite Hls, <- Ens, osingle_find. cbn [existsb andb orb negb acc_evs]. rewrite !andb_false_r. cbn [orb].
    destruct arr; [reflexivity|]. cbn [negb andb]. rewrite Enf.
    assert (Hz : nodes (og_l (op_g s)) = []).
    { destruct (nodes (og_l (op_g s))) as [|n0 ntl] eqn:En; [reflexivity|]. exfalso. rewrite (Hb eq_refl) in E. unfold op_take in E. rewrite En in E.
      unfold o_alloc_array, op_ns in E. rewrite Z.leb_refl in E. unfold o_alloc in E. rewrite En in E. discriminate. }
    unfold o_capacity, n_of. rewrite Hz. reflexivity.
Qed.

Theorem odealloc_refines s sp p bytes s' r evs : OPR s sp -> op_dealloc s p bytes = Some (s', r, evs) ->
  exists sp', acc_op sp (ODealloc (op_ns s) bytes p) evs r = Some sp' /\ OPR s' sp'.
Proof.
  intros (l & Hls & Hinv & Hur & Hheld & Hc & Hcd) Hstep. unfold op_dealloc in Hstep.
  pose proof (list_of_OR _ _ _ Hur) as El. assert (Ens : l_ns l = op_ns s) by (rewrite El; reflexivity).
  pose proof Hur as (Huinv & _). destruct Huinv as (_ & _ & _ & Hns).
  destruct (remove_alloc p (slots_needed (nsz (og_l (op_g s))) bytes) (og_live (op_g s))) as [live'|] eqn:E; [|discriminate].
  destruct (ol_dealloc_array (og_l (op_g s)) p bytes) as [l2|] eqn:Ed; [|discriminate]. inversion Hstep; subst s' r evs; clear Hstep.
  unfold ol_dealloc_array in Ed.
  assert (Hk : exists k, ogstep false false (op_g s) k = Some ({| og_l := l2; og_live := live' |}, None) /\
                         us_step {| us_rs := a_ranges sp; us_l := l |} (o_us_op k) None =
                           match give_slots l p (slots_needed (op_ns s) bytes) with Some l' => Some {| us_rs := a_ranges sp; us_l := l' |} | None => None end).
  { destruct (Z.leb_spec bytes (nsz (og_l (op_g s)))) as [Hb|Hb].
    - exists (ODeallocN p). unfold slots_needed in E. destruct (Z.leb_spec bytes (nsz (og_l (op_g s)))); [|lia]. split.
      + cbn [ogstep]. rewrite E. unfold o_dealloc_array in Ed. destruct (Z.leb_spec bytes (nsz (og_l (op_g s)))); [|lia].
        destruct (o_dealloc false false (og_l (op_g s)) p); try discriminate. inversion Ed; reflexivity.
      + cbn [us_step us_l us_rs o_us_op]. unfold slots_needed, op_ns. destruct (Z.leb_spec bytes (nsz (og_l (op_g s)))); [reflexivity|lia].
    - exists (ODeallocArr p bytes). destruct (onodes_for_slots (og_l (op_g s)) bytes Hns Hb) as [Hsn _]. split.
      + cbn [ogstep]. destruct (Z.ltb_spec (nsz (og_l (op_g s))) bytes); [|lia]. rewrite <- Hsn, E.
        destruct (o_dealloc_array false false (og_l (op_g s)) p bytes); try discriminate. inversion Ed; reflexivity.
      + cbn [us_step us_l us_rs o_us_op]. rewrite Ens. reflexivity. }
  destruct Hk as (k & Hk & Hus). destruct (ostep_refines _ _ _ _ _ _ _ Hur Hk) as (u' & Hu & Hur'). rewrite Hus in Hu.
  destruct (give_slots l p (slots_needed (op_ns s) bytes)) as [l'|] eqn:G; [|discriminate]. inversion Hu; subst u'; clear Hu.
  assert (Ens' : l_ns l' = l_ns l) by (unfold give_slots in G; destruct (remove_alloc p _ (l_allocs l)); [|discriminate]; inversion G; reflexivity).
  assert (Hacc : acc_op sp (ODealloc (op_ns s) bytes p) [] ObsTrue = Some (with_list sp l')).
  { unfold acc_op. rewrite Hls, <- Ens, osingle_find. rewrite Ens, G. reflexivity. }
  pose proof (acc_op_inv _ _ _ _ _ Hinv Hacc) as Hinv'.
  assert (Hw : with_list sp l' = {| a_lists := [l']; a_ranges := a_ranges sp; a_held := a_held sp |}) by (unfold with_list; rewrite Hls, (osingle_set l l' Ens'); reflexivity).
  rewrite Hw in *. eexists. split; [exact Hacc|].
  exists l'. cbn [a_lists a_ranges a_held op_g op_ar]. split; [reflexivity|]. split; [exact Hinv'|]. split; [exact Hur'|]. split; [exact Hheld|]. split; assumption.
Qed.

(* ---------- histories ---------- *)
Definition op_answer_ok (s : opool) (sp : ast) (o : opool_op) : Prop :=
  match op_answer o with Some addr => OWB sp addr (ar_next (op_ar s)) /\ op_ns s <= ar_next (op_ar s) - hdr | None => True end.

Theorem ordered_pool_step_refines s sp o s' r evs : OPR s sp -> 0 < op_ns s < 2^64 -> op_answer_ok s sp o ->
  op_step s o = Some (s', r, evs) -> exists sp', acc_op sp (op_spec_op (op_ns s) o) evs r = Some sp' /\ OPR s' sp'.
Proof.
  intros Hpr Hns Hok Hstep. unfold op_answer_ok in Hok. destruct o as [answer| |bytes answer|bytes|p bytes]; cbn [op_step op_spec_op op_answer] in *.
  - inversion Hstep as [H1]. apply (oalloc_refines s sp false (op_ns s) answer s' r evs Hpr Hns); [intros addr ->; exact Hok|reflexivity|exact H1].
  - inversion Hstep as [H1]. apply (otry_alloc_refines s sp false (op_ns s) s' r evs Hpr); [reflexivity|exact H1].
  - inversion Hstep as [H1]. apply (oalloc_refines s sp true bytes answer s' r evs Hpr Hns); [intros addr ->; exact Hok|discriminate|exact H1].
  - inversion Hstep as [H1]. apply (otry_alloc_refines s sp true bytes s' r evs Hpr); [discriminate|exact H1].
  - apply (odealloc_refines s sp p bytes s' r evs Hpr Hstep).
Qed.

Lemma otake_ns s bytes s' x : op_take s bytes = Some (s', x) -> op_ns s' = op_ns s.
Proof.
  unfold op_take, op_ns. destruct (nodes (og_l (op_g s))); [discriminate|].
  destruct (o_alloc_array (og_l (op_g s)) bytes) as [[x0 l']|] eqn:E; [|discriminate]. intros H; inversion H; subst. cbn [op_g og_l]. exact (o_alloc_array_nsz _ _ _ _ E).
Qed.

Lemma op_ns_step s o s' r evs : op_step s o = Some (s', r, evs) -> op_ns s' = op_ns s.
Proof.
  assert (Hg : forall bytes answer (s1 : opool) (r1 : obs) (e1 : list ev),
     (match op_grow s answer with
      | (s1, true, evs1) => match op_take s1 bytes with Some (s2, x) => (s2, ObsOk x, evs1) | None => (s1, ObsThrow, evs1) end
      | (s1, false, evs1) => (s1, ObsThrow, evs1)
      end) = (s1, r1, e1) -> op_ns s1 = op_ns s).
  { intros bytes answer s1 r1 e1 H. destruct (op_grow s answer) as [[s2 ok] evs1] eqn:G. pose proof (ogrow_ns _ _ _ _ _ G) as Eg. destruct ok; [|inversion H; subst; exact Eg].
    destruct (op_take s2 bytes) as [[s3 x]|] eqn:E2; inversion H; subst; [rewrite (otake_ns _ _ _ _ E2)|]; exact Eg. }
  destruct o as [answer| |bytes answer|bytes|p bytes]; cbn [op_step].
  - intros H. inversion H as [H1]; clear H. unfold op_alloc_node in H1. destruct (op_take s (op_ns s)) as [[s1 x]|] eqn:E; [inversion H1; subst; exact (otake_ns _ _ _ _ E)|].
    destruct (nodes (og_l (op_g s))); [exact (Hg _ _ _ _ _ H1)|inversion H1; reflexivity].
  - intros H. inversion H as [H1]; clear H. unfold op_try_alloc_node in H1. destruct (op_take s (op_ns s)) as [[s1 x]|] eqn:E; inversion H1; subst; [exact (otake_ns _ _ _ _ E)|reflexivity].
  - intros H. inversion H as [H1]; clear H. unfold op_alloc_array in H1. destruct (op_take s bytes) as [[s1 x]|] eqn:E; [inversion H1; subst; exact (otake_ns _ _ _ _ E)|exact (Hg _ _ _ _ _ H1)].
  - intros H. inversion H as [H1]; clear H. unfold op_try_alloc_array in H1. destruct (op_take s bytes) as [[s1 x]|] eqn:E; inversion H1; subst; [exact (otake_ns _ _ _ _ E)|reflexivity].
  - unfold op_dealloc. destruct (remove_alloc p _ (og_live (op_g s))); [|discriminate]. unfold ol_dealloc_array.
    destruct (o_dealloc_array false false (og_l (op_g s)) p bytes) as [l'| | | |] eqn:E; try discriminate. intros H; inversion H; subst. unfold op_ns. cbn [op_g og_l].
    unfold o_dealloc_array in E. destruct (bytes <=? nsz (og_l (op_g s))).
    + unfold o_dealloc in E. destruct (find_pos false false (og_l (op_g s)) p); try discriminate. inversion E; reflexivity.
    + destruct (find_pos false false (og_l (op_g s)) p); try discriminate. inversion E; reflexivity.
Qed.

Fixpoint op_answers_ok (s : opool) (sp : ast) (os : list opool_op) : Prop :=
  match os with
  | [] => True
  | o :: tl => op_answer_ok s sp o /\
      forall s' r evs sp', op_step s o = Some (s', r, evs) -> acc_op sp (op_spec_op (op_ns s) o) evs r = Some sp' -> op_answers_ok s' sp' tl
  end.

Theorem ordered_pool_refines_spec : forall os s sp s' tr, OPR s sp -> 0 < op_ns s < 2^64 -> op_answers_ok s sp os ->
  op_run s os = Some (s', tr) -> exists sp', run sp tr = Some sp' /\ OPR s' sp'.
Proof.
  induction os as [|o tl IH]; intros s sp s' tr Hpr Hns Hok Hrun; cbn [op_run] in Hrun.
  - inversion Hrun; subst. exists sp. split; [reflexivity|exact Hpr].
  - destruct (op_step s o) as [[[s1 r] evs]|] eqn:E; [|discriminate].
    destruct (op_run s1 tl) as [[s2 tr1]|] eqn:E2; [|discriminate]. inversion Hrun; subst s' tr; clear Hrun.
    destruct Hok as [Hok1 Hok2].
    destruct (ordered_pool_step_refines s sp o s1 r evs Hpr Hns Hok1 E) as (sp1 & Hacc & Hpr1).
    cbn [run]. rewrite Hacc. apply (IH s1 sp1 s2 tr1 Hpr1); [rewrite (op_ns_step _ _ _ _ _ E); exact Hns|exact (Hok2 _ _ _ _ E Hacc)|exact E2].
Qed.

Lemma op_init_OPR k pb0 pe0 ns bs : pb0 < pe0 -> 0 < ns -> OPR (op_init k pb0 pe0 ns bs) (mk_ast [ul ns [] 0]).
Proof.
  intros Hp Hns. exists (ul ns [] 0). cbn [mk_ast a_lists a_ranges a_held op_init op_ar op_g ar_init ar_used ar_cache ar_cached].
  split; [reflexivity|]. split.
  - apply init_inv; [cbn; constructor; [intros []|constructor]|]. constructor; [|constructor]. cbn. repeat split; lia.
  - split; [apply oempty_R; assumption|]. repeat split.
Qed.

Theorem op_construct_refines k pb0 pe0 ns bs answer s ok evs : pb0 < pe0 -> 0 < ns < 2^64 ->
  (forall addr, answer = Some addr -> OWB (mk_ast [ul ns [] 0]) addr bs /\ ns <= bs - hdr) ->
  op_construct k pb0 pe0 ns bs answer = (s, ok, evs) -> exists sp, acc_evs (mk_ast [ul ns [] 0]) evs = Some sp /\ OPR s sp.
Proof.
  intros Hp Hns Hwb Hc. unfold op_construct in Hc.
  destruct (ogrow_refines (op_init k pb0 pe0 ns bs) (mk_ast [ul ns [] 0]) answer s ok evs (op_init_OPR k pb0 pe0 ns bs Hp ltac:(lia)) Hns Hwb Hc) as (sp & Hev & Hpr & _).
  exists sp. split; assumption.
Qed.
