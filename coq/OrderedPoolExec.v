(* memory_pool<array_pool> -- and memory_pool<node_pool> when the double-free check is compiled in -- over an uncached arena:
   Exec model built from the Exec models of the arena (Arena.v) and of the address-ordered free list (OrderedList.v).
   pb, pe: addresses of the list's two sentinels (they live in the pool object). *)
From Coq Require Import ZArith NArith List Bool Lia.
From FM Require Import GenArith FixedStack SmallCarve PoolSpec Stack Arena OrderedList UnorderedList UnorderedRefine OrderedRefine.
Import ListNotations.
Local Open Scope Z_scope.

Record opool := { op_ar : arena; op_g : og }.
Definition op_ns (s : opool) : Z := nsz (og_l (op_g s)).

(* the list operations with the checks compiled out; on valid histories every configuration gives the same list *)
Definition ol_insert (l : olist) (m sz : Z) : option olist := match o_insert false false l m sz with Ret l' => Some l' | _ => None end.
Definition ol_dealloc (l : olist) (p : Z) : option olist := match o_dealloc false false l p with Ret l' => Some l' | _ => None end.
Definition ol_dealloc_array (l : olist) (p bytes : Z) : option olist := match o_dealloc_array false false l p bytes with Ret l' => Some l' | _ => None end.

Definition op_grow (s : opool) (answer : option Z) : opool * bool * list ev :=
  match astep (op_ar s) ABlock answer with
  | (a', ABlk m sz, _) =>
      match ol_insert (og_l (op_g s)) m sz with
      | Some l1 => ({| op_ar := a'; op_g := {| og_l := l1; og_live := og_live (op_g s) |} |}, true, [EUp (m - hdrZ) (sz + hdrZ); EIns (op_ns s) m sz])
      | None => ({| op_ar := a'; op_g := op_g s |}, false, [EUp (m - hdrZ) (sz + hdrZ)])     (* not reached: the block is fresh *)
      end
  | (a', AThrowUpstream, _) => ({| op_ar := a'; op_g := op_g s |}, false, [EUpFail])
  | (a', _, _) => ({| op_ar := a'; op_g := op_g s |}, false, [])
  end.

Definition op_take (s : opool) (bytes : Z) : option (opool * Z) :=
  let g := op_g s in let l := og_l g in
  match nodes l with
  | [] => None
  | _ :: _ =>
      match o_alloc_array l bytes with
      | Some (x, l') => Some ({| op_ar := op_ar s; op_g := {| og_l := l'; og_live := (x, slots_needed (nsz l) bytes) :: og_live g |} |}, x)
      | None => None
      end
  end.

(* allocate_node(): if (free_list_.empty()) allocate_block(); return free_list_.allocate(); *)
Definition op_alloc_node (s : opool) (answer : option Z) : opool * obs * list ev :=
  match op_take s (op_ns s) with
  | Some (s', x) => (s', ObsOk x, [])
  | None =>
      match nodes (og_l (op_g s)) with
      | _ :: _ => (s, ObsThrow, [])
      | [] => match op_grow s answer with
              | (s1, true, evs) => match op_take s1 (op_ns s) with Some (s', x) => (s', ObsOk x, evs) | None => (s1, ObsThrow, evs) end
              | (s1, false, evs) => (s1, ObsThrow, evs)
              end
      end
  end.
Definition op_try_alloc_node (s : opool) : opool * obs * list ev :=
  match op_take s (op_ns s) with Some (s', x) => (s', ObsOk x, []) | None => (s, ObsNull, []) end.
(* allocate_array: take, else grow and take again, else bad_array_size *)
Definition op_alloc_array (s : opool) (bytes : Z) (answer : option Z) : opool * obs * list ev :=
  match op_take s bytes with
  | Some (s', x) => (s', ObsOk x, [])
  | None =>
      match op_grow s answer with
      | (s1, true, evs) => match op_take s1 bytes with Some (s', x) => (s', ObsOk x, evs) | None => (s1, ObsThrow, evs) end
      | (s1, false, evs) => (s1, ObsThrow, evs)
      end
  end.
Definition op_try_alloc_array (s : opool) (bytes : Z) : opool * obs * list ev :=
  match op_take s bytes with Some (s', x) => (s', ObsOk x, []) | None => (s, ObsNull, []) end.
Definition op_dealloc (s : opool) (p bytes : Z) : option (opool * obs * list ev) :=
  let g := op_g s in let l := og_l g in
  match remove_alloc p (slots_needed (nsz l) bytes) (og_live g) with
  | Some live' => match ol_dealloc_array l p bytes with
                  | Some l' => Some ({| op_ar := op_ar s; op_g := {| og_l := l'; og_live := live' |} |}, ObsTrue, [])
                  | None => None
                  end
  | None => None
  end.
Definition op_init (k : akind) (pb0 pe0 ns block_size : Z) : opool :=
  {| op_ar := ar_init k false block_size; op_g := {| og_l := o_empty pb0 pe0 ns; og_live := [] |} |}.
Definition op_construct (k : akind) (pb0 pe0 ns block_size : Z) (answer : option Z) : opool * bool * list ev :=
  op_grow (op_init k pb0 pe0 ns block_size) answer.

Inductive opool_op :=
  | QAllocNode (answer : option Z) | QTryAllocNode | QAllocArray (bytes : Z) (answer : option Z) | QTryAllocArray (bytes : Z) | QDealloc (p bytes : Z).
Definition op_spec_op (ns : Z) (o : opool_op) : op :=
  match o with
  | QAllocNode _ => OAlloc false false ns ns | QTryAllocNode => OAlloc true false ns ns
  | QAllocArray b _ => OAlloc false true ns b | QTryAllocArray b => OAlloc true true ns b | QDealloc p b => ODealloc ns b p
  end.
Definition op_step (s : opool) (o : opool_op) : option (opool * obs * list ev) :=
  match o with
  | QAllocNode a => Some (op_alloc_node s a) | QTryAllocNode => Some (op_try_alloc_node s)
  | QAllocArray b a => Some (op_alloc_array s b a) | QTryAllocArray b => Some (op_try_alloc_array s b) | QDealloc p b => op_dealloc s p b
  end.
Definition op_answer (o : opool_op) : option Z := match o with QAllocNode a | QAllocArray _ a => a | _ => None end.
Fixpoint op_run (s : opool) (os : list opool_op) : option (opool * list (op * list ev * obs)) :=
  match os with
  | [] => Some (s, [])
  | o :: tl => match op_step s o with
               | Some (s', r, evs) => match op_run s' tl with Some (s'', tr) => Some (s'', (op_spec_op (op_ns s) o, evs, r) :: tr) | None => None end
               | None => None
               end
  end.
