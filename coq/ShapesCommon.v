(* shared definitions for the C08 / C09 obligations computed on the call-shape table regenerated from the wrapper class templates. *)
From Coq Require Import String List Bool.
From FM Require Import GenShapes ShapesLib.
Import ListNotations.
Local Open Scope string_scope.

Definition node_params := ["size"; "alignment"].
Definition array_params := ["count"; "size"; "alignment"].
Definition dnode_params := ["ptr"; "size"; "alignment"].
Definition darray_params := ["ptr"; "count"; "size"; "alignment"].

(* the eight (de)allocation members with the parameter list each must have *)
Definition alloc_members : list (string * list string) :=
  [("allocate_node", node_params); ("allocate_array", array_params); ("deallocate_node", dnode_params); ("deallocate_array", darray_params);
   ("try_allocate_node", node_params); ("try_allocate_array", array_params); ("try_deallocate_node", dnode_params); ("try_deallocate_array", darray_params)].

Definition exactly_one (c n : string) : bool := match mem_of c n with [_] => true | _ => false end.

