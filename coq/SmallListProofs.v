(* small_free_memory_list Exec model: the chunk search always finds a chunk with room (the loop of find_chunk_impl(1)
   terminates whenever capacity_ > 0), allocate hands out exactly one free node and deallocate puts exactly that node
   back, free nodes are pairwise disjoint and inside their chunks. *)
From Coq Require Import ZArith List Bool Lia Arith Permutation.
From FM Require Import GenArith FixedStack SmallCarve InvalidRelease SmallList.
Import ListNotations.
Local Open Scope Z_scope.

Lemma sm_constants : sm_cmo = Z.of_N chunk_memory_offset /\ sm_cmax = Z.of_N chunk_max_nodes /\ sm_calign = Z.of_N alignof_foonathan__memory__detail__chunk_base.
Proof. repeat split; vm_compute; reflexivity. Qed.

(* ---------- the ring search ---------- *)
Section Ring.
Variable l : smlist.
Let n := ring_size l.

Fixpoint iter_next (k : nat) (p : nat) : nat := match k with O => p | S j => iter_next j (ring_next l p) end.

Lemma iter_next_val k p : (p < n)%nat -> (k <= n)%nat ->
  iter_next k p = if Nat.ltb (p + k) n then (p + k)%nat else (p + k - n)%nat.
Proof.
  revert p. induction k as [|k IH]; intros p Hp Hk; cbn [iter_next].
  - destruct (Nat.ltb_spec (p + 0) n); lia.
  - assert (Hn : (ring_next l p < n)%nat).
    { unfold ring_next. fold n. destruct (Nat.eqb_spec (S p) n); lia. }
    rewrite IH by lia. unfold ring_next. fold n.
    destruct (Nat.eqb_spec (S p) n) as [E|E]; destruct (Nat.ltb_spec (0 + k) n); destruct (Nat.ltb_spec (p + S k) n);
      destruct (Nat.ltb_spec (S p + k) n); lia.
Qed.

Lemma search_out_some fuel : forall f b, (exists k, (k < fuel)%nat /\ has_room l (iter_next k f) = true) ->
  exists p, search_out fuel l f b = Some p /\ has_room l p = true.
Proof.
  induction fuel as [|fuel IH]; intros f b [k [Hk Hr]]; [lia|].
  cbn [search_out]. destruct (has_room l f) eqn:Hf; [exists f; auto|].
  destruct (has_room l b) eqn:Hb; [exists b; auto|].
  destruct k as [|k]; [cbn [iter_next] in Hr; congruence|].
  apply IH. exists k. split; [lia|exact Hr].
Qed.

Lemma search_out_room fuel : forall f b p, search_out fuel l f b = Some p -> has_room l p = true.
Proof.
  induction fuel as [|fuel IH]; intros f b p; cbn [search_out]; [discriminate|].
  destruct (has_room l f) eqn:Hf; [intros E; inversion E; subst; exact Hf|].
  destruct (has_room l b) eqn:Hb; [intros E; inversion E; subst; exact Hb|]. apply IH.
Qed.

(* every ring position is reached by the forward cursor within ring_size steps *)
Lemma forward_covers q : (sm_ac l < n)%nat -> (q < n)%nat -> exists k, (k < n)%nat /\ iter_next k (ring_next l (sm_ac l)) = q.
Proof.
  intros Ha Hq. set (s := ring_next l (sm_ac l)).
  assert (Hs : (s < n)%nat). { unfold s, ring_next. fold n. destruct (Nat.eqb_spec (S (sm_ac l)) n); lia. }
  exists (if Nat.leb s q then (q - s)%nat else (q + n - s)%nat).
  destruct (Nat.leb_spec s q).
  - split; [lia|]. rewrite iter_next_val by lia. destruct (Nat.ltb_spec (s + (q - s)) n); lia.
  - split; [lia|]. rewrite iter_next_val by lia. destruct (Nat.ltb_spec (s + (q + n - s)) n); lia.
Qed.

Theorem find_chunk_complete q : (sm_ac l < n)%nat -> has_room l q = true ->
  exists p, find_chunk l = Some p /\ has_room l p = true.
Proof.
  intros Ha Hq. unfold find_chunk.
  destruct (has_room l (sm_ac l)) eqn:H1; [eauto|].
  destruct (has_room l (sm_dc l)) eqn:H2; [eauto|].
  assert (Hqn : (q < n)%nat).
  { unfold has_room in Hq. destruct q as [|i]; [discriminate|]. destruct (nth_error (sm_chunks l) i) eqn:E; [|discriminate].
    assert (i < length (sm_chunks l))%nat by (apply nth_error_Some; congruence). unfold n, ring_size; lia. }
  destruct (forward_covers q Ha Hqn) as [k [Hk Ek]].
  apply search_out_some. exists k. split; [exact Hk|]. rewrite Ek. exact Hq.
Qed.

Theorem find_chunk_sound p : find_chunk l = Some p -> has_room l p = true.
Proof.
  unfold find_chunk. destruct (has_room l (sm_ac l)) eqn:H1; [intros E; inversion E; subst; exact H1|].
  destruct (has_room l (sm_dc l)) eqn:H2; [intros E; inversion E; subst; exact H2|]. apply search_out_room.
Qed.
End Ring.

(* ---------- the invariant ---------- *)
Definition c_end (ns : Z) (c : chunk) : Z := c_mem c + c_nodes c * ns.
Definition chunk_ok (c : chunk) : Prop :=
  0 <= c_nodes c /\ NoDup (c_free c) /\ Forall (fun i => 0 <= i < c_nodes c) (c_free c).
(* chunks in address order, each chunk (header and nodes) behind the nodes of the one before, all above lo *)
Fixpoint sep (ns lo : Z) (cs : list chunk) : Prop :=
  match cs with [] => True | c :: tl => lo <= c_mem c - sm_cmo /\ sep ns (c_end ns c) tl end.
Definition chunk_addrs (ns : Z) (c : chunk) : list Z := map (fun i => c_mem c + i * ns) (c_free c).
Definition free_addrs (ns : Z) (cs : list chunk) : list Z := flat_map (chunk_addrs ns) cs.

Definition SmInv (l : smlist) : Prop :=
  0 < sm_ns l /\ Forall chunk_ok (sm_chunks l) /\ (exists lo, sep (sm_ns l) lo (sm_chunks l)) /\
  (sm_ac l < ring_size l)%nat /\ (sm_dc l < ring_size l)%nat.

Lemma sep_weaken ns lo lo' cs : lo' <= lo -> sep ns lo cs -> sep ns lo' cs.
Proof. destruct cs as [|c tl]; cbn [sep]; [auto|]. intros H [H1 H2]. split; [lia|exact H2]. Qed.

Lemma chunk_addrs_range ns c a : 0 < ns -> chunk_ok c -> In a (chunk_addrs ns c) -> c_mem c <= a /\ a + ns <= c_end ns c.
Proof.
  intros Hns (Hn & _ & Hall) Hin. unfold chunk_addrs in Hin. apply in_map_iff in Hin. destruct Hin as [i [E Hi]].
  rewrite Forall_forall in Hall. specialize (Hall i Hi). unfold c_end. subst a. nia.
Qed.

Lemma free_addrs_above ns lo cs a : 0 < ns -> Forall chunk_ok cs -> sep ns lo cs -> In a (free_addrs ns cs) -> lo <= a.
Proof.
  intros Hns. revert lo. induction cs as [|c tl IH]; intros lo Hok Hsep Hin; [destruct Hin|].
  cbn [free_addrs flat_map] in Hin. apply in_app_or in Hin. inversion Hok as [|? ? Hc Htl]; subst. destruct Hsep as [H1 H2].
  destruct Hin as [Hin|Hin].
  - apply (chunk_addrs_range ns c a Hns Hc) in Hin. unfold sm_cmo in H1. lia.
  - specialize (IH (c_end ns c) Htl H2 Hin). unfold sm_cmo in H1. destruct Hc as (Hn & _). unfold c_end in IH. nia.
Qed.

Lemma sep_above ns : forall tl lo, Forall chunk_ok tl -> 0 < ns -> sep ns lo tl -> forall y, In y tl -> lo <= c_mem y - sm_cmo.
Proof.
  induction tl as [|z tl IH]; intros lo Hok Hns Hs y Hy; [destruct Hy|].
  destruct Hs as [T1 T2]. inversion Hok as [|? ? Hz Htl]; subst. destruct Hy as [->|Hy]; [exact T1|].
  specialize (IH _ Htl Hns T2 y Hy). destruct Hz as (Hz & _). unfold c_end in IH. unfold sm_cmo in *. nia.
Qed.

Lemma sep_pairwise ns : 0 < ns -> forall cs lo, Forall chunk_ok cs -> sep ns lo cs -> forall c d, In c cs -> In d cs ->
  c = d \/ c_end ns c <= c_mem d \/ c_end ns d <= c_mem c.
Proof.
  intros Hns. induction cs as [|x tl IH]; intros lo Hok Hs c d Hc Hd; [destruct Hc|].
  inversion Hok as [|? ? Hx Htl]; subst. destruct Hs as [S1 S2].
  destruct Hc as [->|Hc]; destruct Hd as [->|Hd]; [left; reflexivity| | |eapply IH; eauto].
  - right. left. pose proof (sep_above ns tl _ Htl Hns S2 d Hd). unfold sm_cmo in *. lia.
  - right. right. pose proof (sep_above ns tl _ Htl Hns S2 c Hc). unfold sm_cmo in *. lia.
Qed.

Lemma chunk_addrs_nodup ns c : 0 < ns -> chunk_ok c -> NoDup (chunk_addrs ns c).
Proof.
  intros Hns (_ & Hnd & _). unfold chunk_addrs. induction Hnd as [|i tl Hni Hnd IH]; cbn [map]; constructor; [|exact IH].
  intros Hin. apply in_map_iff in Hin. destruct Hin as [j [E Hj]]. assert (i = j) by nia. subst. contradiction.
Qed.

(* free nodes are pairwise distinct -- and, being node_size apart inside a chunk and in disjoint chunks otherwise, disjoint *)
Lemma free_addrs_nodup ns lo cs : 0 < ns -> Forall chunk_ok cs -> sep ns lo cs -> NoDup (free_addrs ns cs).
Proof.
  intros Hns. revert lo. induction cs as [|c tl IH]; intros lo Hok Hsep; [constructor|].
  inversion Hok as [|? ? Hc Htl]; subst. destruct Hsep as [H1 H2]. cbn [free_addrs flat_map].
  assert (Hd : forall a, In a (chunk_addrs ns c) -> ~ In a (free_addrs ns tl)).
  { intros a Ha Hb. apply (chunk_addrs_range ns c a Hns Hc) in Ha. apply (free_addrs_above ns _ tl a Hns Htl H2) in Hb. lia. }
  generalize (chunk_addrs_nodup ns c Hns Hc). generalize Hd. generalize (chunk_addrs ns c). intros xs.
  induction xs as [|x xs IHx]; intros Hdx Hndx; cbn [app]; [exact (IH _ Htl H2)|].
  inversion Hndx; subst. constructor.
  - intros Hin. apply in_app_or in Hin. destruct Hin as [Hin|Hin]; [contradiction|]. apply (Hdx x); [left; reflexivity|exact Hin].
  - apply IHx; [intros a Ha; apply Hdx; right; exact Ha|assumption].
Qed.

Lemma free_addrs_node_in_chunk ns cs a : 0 < ns -> Forall chunk_ok cs -> In a (free_addrs ns cs) ->
  exists c, In c cs /\ c_mem c <= a /\ a + ns <= c_end ns c /\ (a - c_mem c) mod ns = 0.
Proof.
  intros Hns Hok Hin. unfold free_addrs in Hin. apply in_flat_map in Hin. destruct Hin as [c [Hc Ha]].
  rewrite Forall_forall in Hok. pose proof (chunk_addrs_range ns c a Hns (Hok c Hc) Ha) as [H1 H2].
  exists c. repeat split; try assumption. unfold chunk_addrs in Ha. apply in_map_iff in Ha. destruct Ha as [i [E _]].
  subst a. replace (c_mem c + i * ns - c_mem c) with (i * ns) by ring. apply Z_mod_mult.
Qed.

Lemma capacity_is_free_count l : sm_capacity l = Z.of_nat (length (free_addrs (sm_ns l) (sm_chunks l))).
Proof.
  unfold sm_capacity. generalize (sm_chunks l). intros cs. induction cs as [|c tl IH]; cbn [fold_right free_addrs flat_map]; [reflexivity|].
  rewrite app_length. unfold chunk_addrs at 1. rewrite map_length. fold (free_addrs (sm_ns l) tl). rewrite IH. lia.
Qed.

(* ---------- replacing one chunk ---------- *)
Lemma upd_split cs : forall i c, nth_error cs i = Some c ->
  exists pre post, cs = pre ++ c :: post /\ length pre = i /\ forall c', upd_chunk cs i c' = pre ++ c' :: post.
Proof.
  induction cs as [|x tl IH]; intros i c E; [destruct i; discriminate|].
  destruct i as [|i]; cbn [nth_error] in E.
  - inversion E; subst. exists [], tl. repeat split.
  - destruct (IH i c E) as (pre & post & E1 & E2 & E3). exists (x :: pre), post. subst tl. repeat split.
    + cbn [length]. lia.
    + intros c'. cbn [upd_chunk app]. rewrite E3. reflexivity.
Qed.

Lemma upd_length cs : forall i c, length (upd_chunk cs i c) = length cs.
Proof. induction cs as [|x tl IH]; intros [|i] c; cbn [upd_chunk length]; auto. Qed.

Lemma sep_replace ns : forall pre lo c c' post, c_mem c' = c_mem c -> c_nodes c' = c_nodes c ->
  sep ns lo (pre ++ c :: post) -> sep ns lo (pre ++ c' :: post).
Proof.
  induction pre as [|x pre IH]; intros lo c c' post E1 E2; cbn [app sep].
  - unfold c_end. rewrite E1, E2. auto.
  - intros [H1 H2]. split; [exact H1|]. eapply IH; eauto.
Qed.

Lemma free_addrs_app ns a b : free_addrs ns (a ++ b) = free_addrs ns a ++ free_addrs ns b.
Proof. unfold free_addrs. apply flat_map_app. Qed.

(* ---------- allocate ---------- *)
Theorem sm_alloc_spec l : SmInv l -> 0 < sm_capacity l ->
  exists p l', sm_alloc l = Some (p, l') /\ SmInv l' /\ sm_capacity l' = sm_capacity l - 1 /\
               Permutation (free_addrs (sm_ns l) (sm_chunks l)) (p :: free_addrs (sm_ns l') (sm_chunks l')) /\
               sm_ns l' = sm_ns l /\ map c_mem (sm_chunks l') = map c_mem (sm_chunks l) /\ map c_nodes (sm_chunks l') = map c_nodes (sm_chunks l).
Proof.
  intros (Hns & Hok & [lo Hsep] & Hac & Hdc) Hcap.
  (* some chunk has room *)
  assert (Hroom : exists q, has_room l q = true).
  { rewrite capacity_is_free_count in Hcap. destruct (free_addrs (sm_ns l) (sm_chunks l)) as [|a tl] eqn:E; [cbn in Hcap; lia|].
    assert (Hin : In a (free_addrs (sm_ns l) (sm_chunks l))) by (rewrite E; left; reflexivity).
    unfold free_addrs in Hin. apply in_flat_map in Hin. destruct Hin as [c [Hc Ha]].
    apply In_nth_error in Hc. destruct Hc as [i Hi]. exists (S i). unfold has_room. rewrite Hi.
    unfold chunk_addrs in Ha. destruct (c_free c); [destruct Ha|reflexivity]. }
  destruct Hroom as [q Hq]. destruct (find_chunk_complete l q Hac Hq) as [p [Hf Hp]].
  unfold sm_alloc. rewrite Hf. unfold has_room in Hp. destruct p as [|i]; [discriminate|].
  destruct (nth_error (sm_chunks l) i) as [c|] eqn:Hi; [|discriminate].
  destruct (c_free c) as [|idx rest] eqn:Hfree; [discriminate|].
  destruct (upd_split _ _ _ Hi) as (pre & post & E1 & E2 & E3).
  set (c' := {| c_mem := c_mem c; c_nodes := c_nodes c; c_free := rest |}).
  eexists. eexists. split; [reflexivity|]. cbn [sm_ns sm_chunks sm_ac sm_dc]. rewrite (E3 c').
  assert (Hcok : chunk_ok c). { rewrite Forall_forall in Hok. apply Hok. rewrite E1. apply in_or_app. right. left. reflexivity. }
  assert (Hc'ok : chunk_ok c').
  { destruct Hcok as (H1 & H2 & H3). rewrite Hfree in H2, H3. inversion H2; subst. inversion H3; subst. repeat split; assumption. }
  assert (Hperm : Permutation (free_addrs (sm_ns l) (sm_chunks l)) ((c_mem c + idx * sm_ns l) :: free_addrs (sm_ns l) (pre ++ c' :: post))).
  { rewrite E1. rewrite !free_addrs_app. cbn [free_addrs flat_map]. unfold chunk_addrs at 1 3. cbn [c_free c_mem c']. rewrite Hfree. cbn [map app].
    fold (free_addrs (sm_ns l) post). apply Permutation_sym. apply Permutation_middle. }
  split; [|split; [|split; [exact Hperm|split; [reflexivity|]]]].
  - unfold SmInv. cbn [sm_ns sm_chunks sm_ac sm_dc]. split; [exact Hns|]. split.
    + rewrite E1 in Hok. apply Forall_app in Hok. destruct Hok as [Hp1 Hp2]. apply Forall_app. split; [assumption|]. constructor; [assumption|exact (Forall_inv_tail Hp2)].
    + split; [exists lo; rewrite E1 in Hsep; eapply sep_replace; [| |exact Hsep]; reflexivity|].
      unfold ring_size in *. cbn [sm_chunks]. rewrite <- (E3 c'), upd_length. split; [|exact Hdc].
      assert (i < length (sm_chunks l))%nat by (apply nth_error_Some; congruence). lia.
  - rewrite !capacity_is_free_count. cbn [sm_ns sm_chunks]. apply Permutation_length in Hperm. rewrite Hperm. cbn [length]. lia.
  - rewrite E1, !map_app. cbn [map c_mem c_nodes c']. split; reflexivity.
Qed.

(* ---------- deallocate ---------- *)
Lemma chunk_index_nth ns cs p : forall i, chunk_index ns cs p = Some i -> exists c, nth_error cs i = Some c /\ c_from ns c p = true.
Proof.
  induction cs as [|x tl IH]; intros i; cbn [chunk_index]; [discriminate|].
  destruct (c_from ns x p) eqn:E.
  - intros H; inversion H; subst. exists x. split; [reflexivity|exact E].
  - destruct (chunk_index ns tl p) as [j|]; [|discriminate]. intros H; inversion H; subst. apply IH. reflexivity.
Qed.

Lemma chunk_index_complete ns cs p c : In c cs -> c_from ns c p = true -> exists i, chunk_index ns cs p = Some i.
Proof.
  induction cs as [|x tl IH]; intros Hin Hf; [destruct Hin|]. cbn [chunk_index].
  destruct (c_from ns x p) eqn:E; [eauto|]. destruct Hin as [->|Hin]; [congruence|].
  destruct (IH Hin Hf) as [i Hi]. rewrite Hi. eauto.
Qed.

(* a valid release: p is a node of some chunk, on a node boundary, and not free *)
Theorem sm_dealloc_spec l p c : SmInv l -> In c (sm_chunks l) -> c_from (sm_ns l) c p = true -> (p - c_mem c) mod sm_ns l = 0 ->
  ~ In p (free_addrs (sm_ns l) (sm_chunks l)) ->
  exists l', sm_dealloc l p = Some l' /\ SmInv l' /\ sm_capacity l' = sm_capacity l + 1 /\
             Permutation (free_addrs (sm_ns l') (sm_chunks l')) (p :: free_addrs (sm_ns l) (sm_chunks l)) /\
             sm_ns l' = sm_ns l /\ map c_mem (sm_chunks l') = map c_mem (sm_chunks l) /\ map c_nodes (sm_chunks l') = map c_nodes (sm_chunks l).
Proof.
  intros (Hns & Hok & [lo Hsep] & Hac & Hdc) Hin Hfrom Hmod Hnot.
  destruct (chunk_index_complete _ _ _ _ Hin Hfrom) as [i Hi].
  destruct (chunk_index_nth _ _ _ _ Hi) as [d [Hd Hfd]].
  unfold sm_dealloc. rewrite Hi, Hd.
  destruct (upd_split _ _ _ Hd) as (pre & post & E1 & E2 & E3).
  set (idx := (p - c_mem d) / sm_ns l).
  set (d' := {| c_mem := c_mem d; c_nodes := c_nodes d; c_free := idx :: c_free d |}).
  eexists. split; [reflexivity|]. cbn [sm_ns sm_chunks sm_ac sm_dc]. rewrite (E3 d').
  (* d is the chunk c: chunks are disjoint *)
  assert (Hdok : chunk_ok d). { rewrite Forall_forall in Hok. apply Hok. rewrite E1. apply in_or_app. right. left. reflexivity. }
  assert (Hcd : c = d).
  { assert (Hdin : In d (sm_chunks l)) by (eapply nth_error_In; eauto).
    destruct (sep_pairwise (sm_ns l) Hns _ lo Hok Hsep c d Hin Hdin) as [E|[E|E]]; [exact E| |]; exfalso;
      unfold c_from, c_end in *; apply andb_prop in Hfrom; apply andb_prop in Hfd; lia. }
  subst d.
  assert (Hp : p = c_mem c + idx * sm_ns l).
  { unfold idx. pose proof (Z.div_mod (p - c_mem c) (sm_ns l)) as Hdm. rewrite Hmod in Hdm. lia. }
  assert (Hidx : 0 <= idx < c_nodes c).
  { unfold c_from in Hfrom. apply andb_prop in Hfrom. destruct Hfrom as [F1 F2]. apply Z.leb_le in F1. apply Z.ltb_lt in F2. nia. }
  assert (Hfresh : ~ In idx (c_free c)).
  { intros Hi'. apply Hnot. unfold free_addrs. apply in_flat_map. exists c. split; [exact Hin|]. unfold chunk_addrs. apply in_map_iff. exists idx. split; [lia|exact Hi']. }
  assert (Hd'ok : chunk_ok d').
  { destruct Hdok as (H1 & H2 & H3). repeat split; cbn [d' c_nodes c_free]; [assumption|constructor; assumption|constructor; assumption]. }
  assert (Hperm : Permutation (free_addrs (sm_ns l) (pre ++ d' :: post)) (p :: free_addrs (sm_ns l) (sm_chunks l))).
  { rewrite E1. rewrite !free_addrs_app. cbn [free_addrs flat_map]. unfold chunk_addrs at 1 3. cbn [c_free c_mem d' map app].
    fold (free_addrs (sm_ns l) post). rewrite <- Hp. apply Permutation_sym. apply Permutation_middle. }
  split; [|split; [|split; [exact Hperm|split; [reflexivity|]]]].
  - unfold SmInv. cbn [sm_ns sm_chunks sm_ac sm_dc]. split; [exact Hns|]. split.
    + rewrite E1 in Hok. apply Forall_app in Hok. destruct Hok as [Hp1 Hp2]. apply Forall_app. split; [assumption|]. constructor; [assumption|exact (Forall_inv_tail Hp2)].
    + split; [exists lo; rewrite E1 in Hsep; eapply sep_replace; [| |exact Hsep]; reflexivity|].
      unfold ring_size in *. cbn [sm_chunks]. rewrite <- (E3 d'), upd_length. split; [exact Hac|].
      assert (i < length (sm_chunks l))%nat by (apply nth_error_Some; congruence). lia.
  - rewrite !capacity_is_free_count. cbn [sm_ns sm_chunks]. apply Permutation_length in Hperm. rewrite Hperm. cbn [length]. lia.
  - rewrite E1, !map_app. cbn [map c_mem c_nodes d']. split; reflexivity.
Qed.

(* ---------- insert ---------- *)
From FM Require Import CapacityProofs.

Lemma iota_length n : forall from, length (iota n from) = n.
Proof. induction n as [|n IH]; intros from; cbn [iota length]; [reflexivity|]. rewrite IH. reflexivity. Qed.
Lemma iota_in n : forall from i, In i (iota n from) <-> from <= i < from + Z.of_nat n.
Proof.
  induction n as [|n IH]; intros from i; cbn [iota In]; [lia|]. rewrite IH. lia.
Qed.
Lemma iota_nodup n : forall from, NoDup (iota n from).
Proof. induction n as [|n IH]; intros from; cbn [iota]; constructor; [rewrite iota_in; lia|apply IH]. Qed.

Lemma iota_chunk_ok m n : 0 <= n -> chunk_ok {| c_mem := m; c_nodes := n; c_free := iota (Z.to_nat n) 0 |}.
Proof.
  intros Hn. repeat split; cbn [c_nodes c_free]; [exact Hn|apply iota_nodup|].
  apply Forall_forall. intros i Hi. apply iota_in in Hi. lia.
Qed.

Definition ends_below (ns hi : Z) (cs : list chunk) : Prop := Forall (fun c => c_end ns c <= hi) cs.

Lemma sep_app ns a : forall lo b hi, sep ns lo a -> ends_below ns hi a -> lo <= hi -> sep ns hi b -> sep ns lo (a ++ b).
Proof.
  induction a as [|x a IH]; intros lo b hi Ha He Hl Hb; cbn [app].
  - eapply sep_weaken; eauto.
  - destruct Ha as [H1 H2]. inversion He as [|? ? Hx Hrest]; subst. split; [exact H1|]. eapply IH; eauto.
Qed.

Lemma full_chunks_props ns stride k : 0 < ns -> sm_cmo + sm_cmax * ns <= stride -> forall mem,
  sep ns mem (full_chunks k mem stride) /\ ends_below ns (mem + Z.of_nat k * stride) (full_chunks k mem stride) /\
  Forall chunk_ok (full_chunks k mem stride) /\ length (free_addrs ns (full_chunks k mem stride)) = (k * 255)%nat.
Proof.
  intros Hns Hst. induction k as [|k IH]; intros mem; cbn [full_chunks].
  - repeat split; constructor.
  - destruct (IH (mem + stride)) as (I1 & I2 & I3 & I4). unfold sm_cmo, sm_cmax in *.
    split; [|split; [|split]].
    + cbn [sep c_mem]. unfold sm_cmo. split; [lia|]. eapply sep_weaken; [|exact I1]. unfold c_end; cbn [c_mem c_nodes]. lia.
    + constructor; [unfold c_end; cbn [c_mem c_nodes]; nia|]. eapply Forall_impl; [|exact I2]. cbn beta. intros c Hc. nia.
    + constructor; [|exact I3]. change 255%nat with (Z.to_nat 255). apply iota_chunk_ok. lia.
    + cbn [free_addrs flat_map]. rewrite app_length. fold (free_addrs ns (full_chunks k (mem + stride) stride)). rewrite I4.
      unfold chunk_addrs. rewrite map_length. cbn [c_free]. rewrite iota_length. lia.
Qed.

Lemma carve_props ns mem size : 1 <= ns -> 0 <= size ->
  sep ns mem (carve ns mem size) /\ ends_below ns (mem + size) (carve ns mem size) /\ Forall chunk_ok (carve ns mem size) /\
  Z.of_nat (length (free_addrs ns (carve ns mem size))) = s_nodes sm_cmo sm_cmax sm_calign ns size.
Proof.
  intros Hns Hsz. unfold carve, s_nodes. pose proof (stride_props ns Hns) as [S1 S2]. cbv zeta in S1, S2.
  change (s_stride 32 255 8 ns) with (s_stride sm_cmo sm_cmax sm_calign ns) in *.
  set (st := s_stride sm_cmo sm_cmax sm_calign ns) in *.
  unfold s_nochunks, s_rem_nodes, s_rem. fold st.
  pose proof (Z.div_mod size st ltac:(lia)) as Hdm. pose proof (Z.mod_pos_bound size st ltac:(lia)) as Hmb.
  assert (Hk : 0 <= size / st) by (apply Z.div_pos; lia).
  set (k := size / st) in *. set (r := size mod st) in *.
  destruct (full_chunks_props ns st (Z.to_nat k) ltac:(lia) ltac:(unfold sm_cmo, sm_cmax; lia) mem) as (F1 & F2 & F3 & F4).
  rewrite Z2Nat.id in F2 by lia.
  destruct (Z.leb_spec (sm_cmo + ns) r) as [Hr|Hr].
  - set (rn := ((r - sm_cmo) / ns) mod 256).
    assert (Hrn : 0 <= rn <= (r - sm_cmo) / ns).
    { unfold rn. pose proof (Z.mod_pos_bound ((r - sm_cmo) / ns) 256 ltac:(lia)).
      assert (0 <= (r - sm_cmo) / ns) by (apply Z.div_pos; lia). split; [lia|]. apply Z.mod_le; lia. }
    assert (Hfit : rn * ns <= r - sm_cmo).
    { pose proof (Z.mul_div_le (r - sm_cmo) ns ltac:(lia)). nia. }
    split; [|split; [|split]].
    + eapply sep_app; [exact F1|exact F2|nia|]. cbn [sep c_mem]. split; [unfold sm_cmo; lia|exact I].
    + apply Forall_app. split.
      * eapply Forall_impl; [|exact F2]. cbn beta. intros c Hc. lia.
      * constructor; [|constructor]. unfold c_end. cbn [c_mem c_nodes]. lia.
    + apply Forall_app. split; [exact F3|]. constructor; [|constructor]. apply iota_chunk_ok. lia.
    + rewrite free_addrs_app, app_length, F4. cbn [free_addrs flat_map]. rewrite app_nil_r. unfold chunk_addrs. rewrite map_length. cbn [c_free].
      rewrite iota_length. unfold sm_cmax. fold rn. lia.
  - rewrite app_nil_r. split; [exact F1|]. split; [|split; [exact F3|]].
    + eapply Forall_impl; [|exact F2]. cbn beta. intros c Hc. lia.
    + rewrite F4. unfold sm_cmax. lia.
Qed.

Lemma insert_sorted_perm cs new at_ : Permutation (insert_sorted_chunks cs new at_) (new ++ cs).
Proof.
  induction cs as [|c tl IH]; cbn [insert_sorted_chunks]; [rewrite app_nil_r; apply Permutation_refl|].
  destruct (at_ <? c_mem c); [apply Permutation_refl|].
  eapply Permutation_trans; [apply perm_skip; exact IH|]. apply Permutation_middle.
Qed.

Lemma insert_sorted_length cs new at_ : length (insert_sorted_chunks cs new at_) = (length cs + length new)%nat.
Proof. rewrite (Permutation_length (insert_sorted_perm cs new at_)), app_length. lia. Qed.

Lemma insert_sorted_sep ns new mem size : 0 < ns -> 0 < size -> sep ns mem new -> ends_below ns (mem + size) new ->
  forall cs lo, Forall chunk_ok cs -> sep ns lo cs -> lo <= mem ->
  (forall c, In c cs -> c_end ns c <= mem \/ mem + size <= c_mem c - sm_cmo) ->
  sep ns lo (insert_sorted_chunks cs new (mem + sm_cmo)).
Proof.
  intros Hns Hsz Hnew Hend. induction cs as [|c tl IH]; intros lo Hok Hsep Hlo Hdis; cbn [insert_sorted_chunks].
  - eapply sep_weaken; eauto.
  - inversion Hok as [|? ? Hc Htl]; subst. destruct Hsep as [S1 S2]. destruct Hc as (Hn & _).
    assert (Hce : c_mem c <= c_end ns c) by (unfold c_end; nia).
    destruct (Hdis c (or_introl eq_refl)) as [D|D]; destruct (Z.ltb_spec (mem + sm_cmo) (c_mem c)) as [L|L]; unfold sm_cmo in *.
    + lia.
    + cbn [sep]. split; [exact S1|]. apply IH; [exact Htl|exact S2|exact D|intros x Hx; apply Hdis; right; exact Hx].
    + eapply sep_app; [eapply sep_weaken; [exact Hlo|exact Hnew]|exact Hend|lia|]. cbn [sep]. unfold sm_cmo. split; [lia|exact S2].
    + lia.
Qed.

Lemma shift_cursor_bound cur pos count n : (cur < S n)%nat -> (shift_cursor cur pos count < S (n + count))%nat.
Proof. unfold shift_cursor. intros H. destruct (Nat.eqb_spec cur 0); [lia|]. destruct (Nat.leb_spec (S pos) cur); lia. Qed.

Theorem sm_insert_spec l mem size : SmInv l -> 0 < size ->
  (forall c, In c (sm_chunks l) -> c_end (sm_ns l) c <= mem \/ mem + size <= c_mem c - sm_cmo) ->
  let l' := sm_insert l mem size in
  SmInv l' /\ sm_capacity l' = sm_capacity l + s_nodes sm_cmo sm_cmax sm_calign (sm_ns l) size /\
  (exists new, Permutation (free_addrs (sm_ns l') (sm_chunks l')) (new ++ free_addrs (sm_ns l) (sm_chunks l)) /\
               forall a, In a new -> mem <= a /\ a + sm_ns l <= mem + size).
Proof.
  intros (Hns & Hok & [lo Hsep] & Hac & Hdc) Hsz Hdis. cbv zeta. unfold sm_insert. cbn [sm_ns sm_chunks sm_ac sm_dc].
  destruct (carve_props (sm_ns l) mem size ltac:(lia) ltac:(lia)) as (C1 & C2 & C3 & C4).
  set (new := carve (sm_ns l) mem size) in *.
  assert (Hperm : Permutation (free_addrs (sm_ns l) (insert_sorted_chunks (sm_chunks l) new (mem + sm_cmo))) (free_addrs (sm_ns l) new ++ free_addrs (sm_ns l) (sm_chunks l))).
  { unfold free_addrs at 1. rewrite (insert_sorted_perm (sm_chunks l) new (mem + sm_cmo)). rewrite flat_map_app. apply Permutation_refl. }
  split; [|split].
  - unfold SmInv. cbn [sm_ns sm_chunks sm_ac sm_dc]. split; [exact Hns|]. split; [|split].
    + eapply Permutation_Forall; [apply Permutation_sym; apply insert_sorted_perm|]. apply Forall_app. split; assumption.
    + exists (Z.min lo mem). eapply insert_sorted_sep; eauto; [|lia]. eapply sep_weaken; [|exact Hsep]. lia.
    + unfold ring_size in *. cbn [sm_chunks]. rewrite insert_sorted_length. split; apply shift_cursor_bound; assumption.
  - rewrite !capacity_is_free_count. cbn [sm_ns sm_chunks]. rewrite (Permutation_length Hperm), app_length. lia.
  - exists (free_addrs (sm_ns l) new). split; [exact Hperm|]. intros a Ha.
    pose proof (free_addrs_above _ _ _ _ Hns C3 C1 Ha) as Hlo.
    destruct (free_addrs_node_in_chunk _ _ _ Hns C3 Ha) as (c & Hc & G1 & G2 & _).
    unfold ends_below in C2. rewrite Forall_forall in C2. specialize (C2 c Hc). lia.
Qed.

(* ---------- histories ---------- *)
Lemma nodup_app_l {A} (a b : list A) : NoDup (a ++ b) -> NoDup a.
Proof.
  induction a as [|x a IH]; cbn [app]; intros H; [constructor|]. inversion H; subst. constructor; [|apply IH; assumption].
  intros Hin. match goal with Hn : ~ In x (a ++ b) |- _ => apply Hn end. apply in_or_app. left. exact Hin.
Qed.

Definition in_grid (ns : Z) (cs : list chunk) (a : Z) : Prop :=
  exists c, In c cs /\ c_mem c <= a /\ a + ns <= c_end ns c /\ (a - c_mem c) mod ns = 0.

(* two different nodes of the grid do not overlap *)
Lemma grid_nodes_disjoint ns cs lo a b : 0 < ns -> Forall chunk_ok cs -> sep ns lo cs -> in_grid ns cs a -> in_grid ns cs b -> a <> b ->
  a + ns <= b \/ b + ns <= a.
Proof.
  intros Hns Hok Hs (c & Hc & A1 & A2 & A3) (d & Hd & B1 & B2 & B3) Hab.
  destruct (sep_pairwise ns Hns cs lo Hok Hs c d Hc Hd) as [->|[H|H]]; [|lia|lia].
  apply Z.mod_divide in A3; [|lia]. apply Z.mod_divide in B3; [|lia]. destruct A3 as [i Hi]. destruct B3 as [j Hj].
  assert (i <> j) by (intros ->; lia). nia.
Qed.

Lemma in_grid_same_layout ns : forall cs cs', map c_mem cs' = map c_mem cs -> map c_nodes cs' = map c_nodes cs ->
  forall a, in_grid ns cs a -> in_grid ns cs' a.
Proof.
  induction cs as [|x tl IH]; intros cs' E1 E2 a (c & Hc & G); [destruct Hc|].
  destruct cs' as [|x' tl']; [discriminate|]. cbn [map] in E1, E2. inversion E1 as [[M1 M2]]. inversion E2 as [[N1 N2]].
  destruct Hc as [->|Hc].
  - exists x'. split; [left; reflexivity|]. unfold c_end in *. rewrite M1, N1. exact G.
  - destruct (IH tl' M2 N2 a (ex_intro _ c (conj Hc G))) as (c' & Hc' & G'). exists c'. split; [right; exact Hc'|exact G'].
Qed.

Definition GInv (g : smg) : Prop :=
  SmInv (g_l g) /\ NoDup (g_live g ++ free_addrs (sm_ns (g_l g)) (sm_chunks (g_l g))) /\
  Forall (in_grid (sm_ns (g_l g)) (sm_chunks (g_l g))) (g_live g).

Lemma free_in_grid l a : SmInv l -> In a (free_addrs (sm_ns l) (sm_chunks l)) -> in_grid (sm_ns l) (sm_chunks l) a.
Proof. intros (Hns & Hok & _) Ha. apply free_addrs_node_in_chunk; assumption. Qed.

Lemma remove_z_perm p : forall l, In p l -> Permutation l (p :: remove_z p l).
Proof.
  induction l as [|x tl IH]; intros Hin; [destruct Hin|]. cbn [remove_z]. destruct (Z.eqb_spec x p) as [->|N]; [apply Permutation_refl|].
  destruct Hin as [E|Hin]; [congruence|]. eapply Permutation_trans; [apply perm_skip; apply IH; exact Hin|]. apply perm_swap.
Qed.

Lemma c_end_b_eq ns c : c_end_b ns c = c_end ns c. Proof. reflexivity. Qed.

Theorem gstep_inv g o g' : GInv g -> gstep g o = Some g' -> GInv g'.
Proof.
  intros (Hinv & Hnd & Hgrid) Hstep. destruct o as [mem size| |p]; cbn [gstep] in Hstep.
  - destruct ((0 <? size) && forallb _ (sm_chunks (g_l g))) eqn:Hpre; [|discriminate]. inversion Hstep; subst g'; clear Hstep.
    apply andb_prop in Hpre. destruct Hpre as [Hs Hall]. apply Z.ltb_lt in Hs. rewrite forallb_forall in Hall.
    assert (Hdis : forall c, In c (sm_chunks (g_l g)) -> c_end (sm_ns (g_l g)) c <= mem \/ mem + size <= c_mem c - sm_cmo).
    { intros c Hc. specialize (Hall c Hc). apply orb_prop in Hall. rewrite c_end_b_eq in Hall. destruct Hall as [H|H]; [left|right]; apply Z.leb_le; exact H. }
    destruct (sm_insert_spec (g_l g) mem size Hinv Hs Hdis) as (I1 & I2 & new & I3 & I4). cbv zeta in *.
    unfold GInv. cbn [g_l g_live]. split; [exact I1|].
    assert (Ens : sm_ns (sm_insert (g_l g) mem size) = sm_ns (g_l g)) by reflexivity. rewrite Ens in *.
    assert (Hsub : forall a, in_grid (sm_ns (g_l g)) (sm_chunks (g_l g)) a -> in_grid (sm_ns (g_l g)) (sm_chunks (sm_insert (g_l g) mem size)) a).
    { intros a (c & Hc & G). exists c. split; [|exact G]. cbn [sm_insert sm_chunks].
      eapply Permutation_in; [apply Permutation_sym; apply insert_sorted_perm|]. apply in_or_app. right. exact Hc. }
    split.
    + (* the new nodes lie in the inserted block, every old node (free or live) in an old chunk *)
      eapply Permutation_NoDup; [apply Permutation_app_head; apply Permutation_sym; exact I3|].
      eapply Permutation_NoDup; [apply Permutation_app_swap_app|].
      pose proof I1 as (_ & Hok' & [lo' Hsep'] & _).
      assert (Hnd' : NoDup (free_addrs (sm_ns (g_l g)) (sm_chunks (sm_insert (g_l g) mem size)))).
      { rewrite <- Ens. eapply free_addrs_nodup; [|exact Hok'|exact Hsep']. destruct Hinv as (Hns & _). rewrite Ens. exact Hns. }
      eapply Permutation_NoDup in Hnd'; [|exact I3]. pose proof (nodup_app_l _ _ Hnd') as Hnew.
      clear - Hnd Hnew I4 Hdis Hgrid Hinv Hs. revert Hnew I4. generalize new. intros xs. induction xs as [|x xs IHx]; intros Hnew I4; cbn [app]; [exact Hnd|].
      inversion Hnew; subst. constructor; [|apply IHx; [assumption|intros a Ha; apply I4; right; exact Ha]].
      intros Hin. apply in_app_or in Hin. destruct Hin as [Hin|Hin]; [contradiction|].
      assert (Hg : in_grid (sm_ns (g_l g)) (sm_chunks (g_l g)) x).
      { apply in_app_or in Hin. destruct Hin as [Hin|Hin]; [rewrite Forall_forall in Hgrid; apply Hgrid; exact Hin|apply free_in_grid; assumption]. }
      destruct Hg as (c & Hc & G1 & G2 & _). destruct (I4 x (or_introl eq_refl)) as [J1 J2]. destruct Hinv as (Hns & _).
      unfold sm_cmo in *. destruct (Hdis c Hc); lia.
    + eapply Forall_impl; [|exact Hgrid]. exact Hsub.
  - destruct (0 <? sm_capacity (g_l g)) eqn:Hcap; [|discriminate]. apply Z.ltb_lt in Hcap.
    destruct (sm_alloc_spec (g_l g) Hinv Hcap) as (p & l' & E & A1 & A2 & A3 & A4 & A5 & A6). rewrite E in Hstep. inversion Hstep; subst g'; clear Hstep.
    unfold GInv. cbn [g_l g_live]. split; [exact A1|]. rewrite A4. split.
    + eapply Permutation_NoDup; [|exact Hnd]. rewrite A4 in A3. eapply Permutation_trans; [apply Permutation_app_head; exact A3|].
      apply Permutation_sym. apply Permutation_middle.
    + constructor.
      * apply (in_grid_same_layout _ (sm_chunks (g_l g))); [exact A5|exact A6|]. apply free_in_grid; [exact Hinv|].
        eapply Permutation_in; [apply Permutation_sym; exact A3|left; reflexivity].
      * eapply Forall_impl; [|exact Hgrid]. apply in_grid_same_layout; assumption.
  - destruct (existsb (Z.eqb p) (g_live g)) eqn:Hlive; [|discriminate].
    apply existsb_exists in Hlive. destruct Hlive as [x [Hx Ex]]. apply Z.eqb_eq in Ex. subst x.
    pose proof Hgrid as Hg. rewrite Forall_forall in Hg. destruct (Hg p Hx) as (c & Hc & G1 & G2 & G3).
    destruct Hinv as (Hns & Hrest). pose proof (conj Hns Hrest) as Hinv.
    assert (Hfrom : c_from (sm_ns (g_l g)) c p = true).
    { unfold c_from. apply andb_true_intro. unfold c_end in G2. split; [apply Z.leb_le; lia|apply Z.ltb_lt; lia]. }
    assert (Hnot : ~ In p (free_addrs (sm_ns (g_l g)) (sm_chunks (g_l g)))).
    { intros Hin. apply in_split in Hx. destruct Hx as (l1 & l2 & El). rewrite El in Hnd. rewrite <- app_assoc in Hnd. cbn [app] in Hnd.
      apply NoDup_remove_2 in Hnd. apply Hnd. apply in_or_app. right. apply in_or_app. right. exact Hin. }
    destruct (sm_dealloc_spec (g_l g) p c Hinv Hc Hfrom G3 Hnot) as (l' & E & D1 & D2 & D3 & D4 & D5 & D6).
    rewrite E in Hstep. inversion Hstep; subst g'; clear Hstep.
    unfold GInv. cbn [g_l g_live]. split; [exact D1|]. rewrite D4. split.
    + rewrite D4 in D3. eapply Permutation_NoDup; [|exact Hnd].
      eapply Permutation_trans; [apply Permutation_app_tail; apply (remove_z_perm p); exact Hx|].
      cbn [app]. eapply Permutation_trans; [apply Permutation_middle|]. apply Permutation_app_head. apply Permutation_sym. exact D3.
    + assert (Hsubl : forall a, In a (remove_z p (g_live g)) -> In a (g_live g)).
      { intros a Ha. eapply Permutation_in; [apply Permutation_sym; apply (remove_z_perm p); exact Hx|]. right. exact Ha. }
      apply Forall_forall. intros a Ha. apply (in_grid_same_layout _ (sm_chunks (g_l g))); [exact D5|exact D6|]. apply Hg. apply Hsubl. exact Ha.
Qed.

Theorem grun_inv os : forall g g', GInv g -> grun g os = Some g' -> GInv g'.
Proof.
  induction os as [|o tl IH]; intros g g' Hg Hr; cbn [grun] in Hr; [inversion Hr; subst; exact Hg|].
  destruct (gstep g o) as [g1|] eqn:E; [|discriminate]. eapply IH; [eapply gstep_inv; eauto|exact Hr].
Qed.

Lemma empty_ginv ns : 0 < ns -> GInv {| g_l := sm_empty ns; g_live := [] |}.
Proof.
  intros Hns. unfold GInv, SmInv, sm_empty, ring_size. cbn [g_l g_live sm_ns sm_chunks sm_ac sm_dc free_addrs flat_map app length].
  split; [split; [exact Hns|split; [constructor|split; [exists 0; exact I|split; lia]]]|split; constructor].
Qed.

(* progress: within the preconditions no operation gets stuck -- in particular the chunk search of allocate() ends *)
Theorem gstep_progress g o : GInv g ->
  match o with
  | GIns mem size => True
  | GAlloc => 0 < sm_capacity (g_l g) -> exists g', gstep g o = Some g'
  | GDealloc p => In p (g_live g) -> exists g', gstep g o = Some g'
  end.
Proof.
  intros (Hinv & Hnd & Hgrid). destruct o as [mem size| |p]; [exact I| |].
  - intros Hcap. cbn [gstep]. destruct (Z.ltb_spec 0 (sm_capacity (g_l g))); [|lia].
    destruct (sm_alloc_spec (g_l g) Hinv Hcap) as (p & l' & E & _). rewrite E. eauto.
  - intros Hx. cbn [gstep]. assert (Hl : existsb (Z.eqb p) (g_live g) = true) by (apply existsb_exists; exists p; split; [exact Hx|apply Z.eqb_refl]).
    rewrite Hl. pose proof Hgrid as Hg. rewrite Forall_forall in Hg. destruct (Hg p Hx) as (c & Hc & G1 & G2 & G3).
    pose proof Hinv as (Hns & _).
    assert (Hfrom : c_from (sm_ns (g_l g)) c p = true).
    { unfold c_from. apply andb_true_intro. unfold c_end in G2. split; [apply Z.leb_le; lia|apply Z.ltb_lt; lia]. }
    assert (Hnot : ~ In p (free_addrs (sm_ns (g_l g)) (sm_chunks (g_l g)))).
    { intros Hin. apply in_split in Hx. destruct Hx as (l1 & l2 & El). rewrite El in Hnd. rewrite <- app_assoc in Hnd. cbn [app] in Hnd.
      apply NoDup_remove_2 in Hnd. apply Hnd. apply in_or_app. right. apply in_or_app. right. exact Hin. }
    destruct (sm_dealloc_spec (g_l g) p c Hinv Hc Hfrom G3 Hnot) as (l' & E & _). rewrite E. eauto.
Qed.

(* the user-visible statement: after any history from the empty list, the nodes that are out are pairwise disjoint, none of
   them is on a free chain, and a node handed out next is disjoint from all of them *)
Theorem small_list_live_nodes_disjoint ns os g : 0 < ns -> grun {| g_l := sm_empty ns; g_live := [] |} os = Some g ->
  NoDup (g_live g) /\
  (forall a b, In a (g_live g) -> In b (g_live g) -> a <> b -> a + ns <= b \/ b + ns <= a) /\
  (forall a, In a (g_live g) -> ~ In a (free_addrs (sm_ns (g_l g)) (sm_chunks (g_l g)))) /\
  (forall g' , gstep g GAlloc = Some g' -> exists p, g_live g' = p :: g_live g /\ forall a, In a (g_live g) -> p + ns <= a \/ a + ns <= p).
Proof.
  intros Hns Hr. pose proof (grun_inv os _ _ (empty_ginv ns Hns) Hr) as Hg.
  assert (Ens : forall os g0 g1, grun g0 os = Some g1 -> sm_ns (g_l g1) = sm_ns (g_l g0)).
  { clear. induction os as [|o tl IH]; intros g0 g1 H; cbn [grun] in H; [inversion H; reflexivity|].
    destruct (gstep g0 o) as [g2|] eqn:E; [|discriminate]. rewrite (IH _ _ H). clear H IH.
    destruct o as [mem size| |p]; cbn [gstep] in E.
    - destruct (_ && _); [|discriminate]. inversion E; reflexivity.
    - destruct (0 <? _); [|discriminate]. unfold sm_alloc in E. destruct (find_chunk (g_l g0)) as [[|i]|]; try discriminate.
      destruct (nth_error _ i) as [c|]; [|discriminate]. destruct (c_free c); [discriminate|]. inversion E; reflexivity.
    - destruct (existsb _ _); [|discriminate]. unfold sm_dealloc in E. destruct (chunk_index _ _ _) as [i|]; [|discriminate].
      destruct (nth_error _ i); [|discriminate]. inversion E; reflexivity. }
  pose proof (Ens _ _ _ Hr) as En. cbn [g_l sm_empty sm_ns] in En.
  assert (Pair : forall h, GInv h -> sm_ns (g_l h) = ns -> forall a b, In a (g_live h) -> In b (g_live h) -> a <> b -> a + ns <= b \/ b + ns <= a).
  { intros h ((Hn & Hok & [lo Hsep] & _) & _ & Hgrid) Eh a b Ha Hb Hab. rewrite Forall_forall in Hgrid. rewrite <- Eh.
    eapply grid_nodes_disjoint; eauto. }
  pose proof Hg as (Hinv & Hnd & Hgrid). split; [eapply nodup_app_l; exact Hnd|]. split; [apply Pair; [exact Hg|exact En]|]. split.
  - intros a Ha Hin. apply in_split in Ha. destruct Ha as (l1 & l2 & El). rewrite El in Hnd. rewrite <- app_assoc in Hnd. cbn [app] in Hnd.
    apply NoDup_remove_2 in Hnd. apply Hnd. apply in_or_app. right. apply in_or_app. right. exact Hin.
  - intros g' Hs. pose proof (gstep_inv g GAlloc g' Hg Hs) as Hg'.
    assert (En' : sm_ns (g_l g') = ns).
    { rewrite (Ens [GAlloc] g g'); [exact En|]. cbn [grun]. rewrite Hs. reflexivity. }
    assert (Ep : exists p, g_live g' = p :: g_live g).
    { cbn [gstep] in Hs. destruct (0 <? _); [|discriminate]. destruct (sm_alloc (g_l g)) as [[p l']|]; [|discriminate]. inversion Hs. exists p. reflexivity. }
    destruct Ep as [p Ep]. exists p. split; [exact Ep|]. intros a Ha.
    assert (Hpa : p <> a).
    { intros ->. destruct Hg' as (_ & Hnd' & _). rewrite Ep in Hnd'. cbn [app] in Hnd'. inversion Hnd' as [|? ? Hni _]; subst. apply Hni. apply in_or_app. left. exact Ha. }
    apply (Pair g' Hg' En'); [rewrite Ep; left; reflexivity|rewrite Ep; right; exact Ha|exact Hpa].
Qed.

(* ---------- deallocate's chunk search ---------- *)
Section NodeSearch.
Variable l : smlist.
Variable p : Z.
Let n := ring_size l.
Definition radd (a k : nat) : nat := if Nat.ltb (a + k) n then (a + k)%nat else (a + k - n)%nat.

Lemma ring_next_radd a : (a < n)%nat -> ring_next l a = radd a 1.
Proof. intros H. unfold ring_next, radd. fold n. destruct (Nat.eqb_spec (S a) n); destruct (Nat.ltb_spec (a + 1) n); lia. Qed.
Lemma ring_prev_radd a d : (a < n)%nat -> (1 <= d < n)%nat -> ring_prev l (radd a d) = radd a (d - 1).
Proof.
  intros Ha Hd. unfold ring_prev, radd. fold n. destruct (Nat.ltb_spec (a + d) n); destruct (Nat.ltb_spec (a + (d - 1)) n).
  - destruct (a + d)%nat eqn:E; lia.
  - lia.
  - destruct (a + d - n)%nat eqn:E; lia.
  - destruct (a + d - n)%nat eqn:E; lia.
Qed.

(* the walk over the arc first, first+1, ..., first+d (round the ring) ends within d/2+1 rounds; it finds a chunk holding p
   if the arc has one, and says so if it has none *)
Lemma walk_in_spec fuel : forall first d, (first < n)%nat -> (d < n)%nat -> (d < 2 * fuel)%nat ->
  ((forall k, (k <= d)%nat -> from_pos l p (radd first k) = false) -> walk_in fuel l p first (radd first d) = FNotFound) /\
  ((exists k, (k <= d)%nat /\ from_pos l p (radd first k) = true) -> exists q, walk_in fuel l p first (radd first d) = FFound q /\ from_pos l p q = true).
Proof.
  induction fuel as [|fuel IH]; intros first d Hf Hd Hfuel; [lia|].
  assert (R0 : radd first 0 = first) by (unfold radd; destruct (Nat.ltb_spec (first + 0) n); lia).
  cbn [walk_in]. destruct (from_pos l p first) eqn:F1.
  { split; [intros Hall; specialize (Hall 0%nat ltac:(lia)); rewrite R0 in Hall; congruence|intros _; exists first; auto]. }
  destruct (from_pos l p (radd first d)) eqn:F2.
  { split; [intros Hall; specialize (Hall d ltac:(lia)); congruence|intros _; exists (radd first d); auto]. }
  rewrite (ring_next_radd first Hf).
  destruct (Nat.eqb first (radd first d) || Nat.eqb (radd first 1) (radd first d)) eqn:Hstop.
  - (* d = 0 or d = 1 *)
    assert (Hd1 : (d <= 1)%nat).
    { apply orb_prop in Hstop. unfold radd in Hstop. destruct Hstop as [E|E]; apply Nat.eqb_eq in E;
        destruct (Nat.ltb_spec (first + d) n); destruct (Nat.ltb_spec (first + 1) n); lia. }
    split; [reflexivity|]. intros [k [Hk Hr]]. exfalso. assert (k = 0 \/ k = d)%nat as [->| ->] by lia; [rewrite R0 in Hr|]; congruence.
  - assert (Hd2 : (2 <= d)%nat).
    { apply orb_false_elim in Hstop. destruct Hstop as [E1 E2]. apply Nat.eqb_neq in E1. apply Nat.eqb_neq in E2. unfold radd in E1, E2.
      destruct (Nat.ltb_spec (first + d) n); destruct (Nat.ltb_spec (first + 1) n); lia. }
    rewrite (ring_prev_radd first d Hf ltac:(lia)).
    assert (Hf' : (radd first 1 < n)%nat) by (unfold radd; destruct (Nat.ltb_spec (first + 1) n); lia).
    assert (Hshift : forall k, (k <= d - 2)%nat -> radd (radd first 1) k = radd first (k + 1)).
    { intros k Hk. unfold radd. destruct (Nat.ltb_spec (first + 1) n); destruct (Nat.ltb_spec (first + (k + 1)) n);
        try destruct (Nat.ltb_spec (first + 1 + k) n); try destruct (Nat.ltb_spec (first + 1 - n + k) n); lia. }
    replace (radd first (d - 1)) with (radd (radd first 1) (d - 2)) by (rewrite Hshift by lia; f_equal; lia).
    destruct (IH (radd first 1) (d - 2)%nat Hf' ltac:(lia) ltac:(lia)) as [I1 I2]. split.
    + intros Hall. apply I1. intros k Hk. rewrite Hshift by lia. apply Hall. lia.
    + intros [k [Hk Hr]]. apply I2. assert (k <> 0)%nat by (intros ->; rewrite R0 in Hr; congruence).
      assert (k <> d) by (intros ->; congruence). exists (k - 1)%nat. split; [lia|]. rewrite Hshift by lia. replace (k - 1 + 1)%nat with k by lia. exact Hr.
Qed.
End NodeSearch.

Lemma radd_reach l a b : (a < ring_size l)%nat -> (b < ring_size l)%nat -> exists d, (d < ring_size l)%nat /\ radd l a d = b.
Proof.
  intros Ha Hb. exists (if Nat.leb a b then (b - a)%nat else (b + ring_size l - a)%nat). unfold radd.
  destruct (Nat.leb_spec a b).
  - split; [lia|]. destruct (Nat.ltb_spec (a + (b - a)) (ring_size l)); lia.
  - split; [lia|]. destruct (Nat.ltb_spec (a + (b + ring_size l - a)) (ring_size l)); lia.
Qed.

Lemma sep_nth ns : 0 < ns -> forall cs lo, Forall chunk_ok cs -> sep ns lo cs -> forall i j c d, (i < j)%nat ->
  nth_error cs i = Some c -> nth_error cs j = Some d -> c_end ns c <= c_mem d - sm_cmo.
Proof.
  intros Hns. induction cs as [|x tl IH]; intros lo Hok Hs i j c d Hij Hi Hj; [destruct i; discriminate|].
  inversion Hok as [|? ? Hx Htl]; subst. destruct Hs as [S1 S2]. destruct j as [|j]; [lia|]. cbn [nth_error] in Hj.
  destruct i as [|i]; cbn [nth_error] in Hi.
  - inversion Hi; subst. apply (sep_above ns tl _ Htl Hns S2 d). eapply nth_error_In; eauto.
  - apply (IH _ Htl S2 i j c d); [lia|exact Hi|exact Hj].
Qed.

Lemma from_pos_unique l p q j c : SmInv l -> from_pos l p q = true -> nth_error (sm_chunks l) j = Some c -> c_from (sm_ns l) c p = true -> q = S j.
Proof.
  intros (Hns & Hok & [lo Hsep] & _) Hq Hj Hc. unfold from_pos in Hq. destruct q as [|i]; [discriminate|].
  destruct (nth_error (sm_chunks l) i) as [e|] eqn:Hi; [|discriminate]. f_equal.
  unfold c_from in *. apply andb_prop in Hq. apply andb_prop in Hc.
  assert (He : chunk_ok e) by (rewrite Forall_forall in Hok; apply Hok; eapply nth_error_In; eauto).
  assert (Hcc : chunk_ok c) by (rewrite Forall_forall in Hok; apply Hok; eapply nth_error_In; eauto).
  destruct (Nat.lt_trichotomy i j) as [L|[E|L]]; [|exact E|]; exfalso.
  - pose proof (sep_nth _ Hns _ _ Hok Hsep i j e c L Hi Hj). unfold c_end, sm_cmo in *. lia.
  - pose proof (sep_nth _ Hns _ _ Hok Hsep j i c e L Hj Hi). unfold c_end, sm_cmo in *. lia.
Qed.

Theorem find_node_spec base l p : SmInv l ->
  (forall j c, nth_error (sm_chunks l) j = Some c -> c_from (sm_ns l) c p = true ->
               (forall e, In e (sm_chunks l) -> c_from (sm_ns l) e base = false) -> sm_find_node base l p = FFound (S j)) /\
  ((forall c, In c (sm_chunks l) -> c_from (sm_ns l) c p = false) ->
   sm_find_node base l p = if pos_addr base l (sm_dc l) =? p then FNoHalf else FNotFound).
Proof.
  intros Hinv. pose proof Hinv as (Hns & Hok & [lo Hsep] & Hac & Hdc). set (n := ring_size l) in *. split.
  - intros j c Hj Hc Hbase. unfold sm_find_node.
    destruct (from_pos l p (sm_dc l)) eqn:F1; [f_equal; eapply from_pos_unique; eauto|].
    destruct (from_pos l p (sm_ac l)) eqn:F2; [f_equal; eapply from_pos_unique; eauto|].
    assert (Hjn : (S j < n)%nat). { assert (j < length (sm_chunks l))%nat by (apply nth_error_Some; congruence). unfold n, ring_size. lia. }
    assert (Hpos : from_pos l p (S j) = true) by (unfold from_pos; rewrite Hj; exact Hc).
    assert (Hfound : forall first d k, (first < n)%nat -> (d < n)%nat -> (k <= d)%nat -> radd l first k = S j ->
                     walk_in n l p first (radd l first d) = FFound (S j)).
    { intros first d k Hf Hd Hk Ek. destruct (walk_in_spec l p n first d Hf Hd ltac:(fold n; lia)) as [_ W].
      destruct W as [q [W1 W2]]; [exists k; split; [exact Hk|rewrite Ek; exact Hpos]|]. rewrite W1. f_equal. eapply from_pos_unique; eauto. }
    assert (Hcin : In c (sm_chunks l)) by (eapply nth_error_In; eauto).
    assert (Hcr : c_mem c <= p < c_end (sm_ns l) c). { unfold c_from in Hc. apply andb_prop in Hc. unfold c_end. lia. }
    assert (Hlen : length (sm_chunks l) = (n - 1)%nat) by (unfold n, ring_size; lia).
    destruct (sm_dc l) as [|k] eqn:Edc.
    + (* the cursor is the proxy: either half is the whole list *)
      cbn [pos_addr]. assert (Hb : c_from (sm_ns l) c base = false) by (apply Hbase; exact Hcin).
      assert (Hnb : base <> p).
      { intros ->. congruence. }
      assert (R1 : ring_next l 0 = 1%nat) by (unfold ring_next; fold n; destruct (Nat.eqb_spec 1 n); lia).
      assert (R2 : ring_prev l 0 = (n - 1)%nat) by reflexivity.
      assert (E : radd l 1 (n - 2) = (n - 1)%nat) by (unfold radd; fold n; destruct (Nat.ltb_spec (1 + (n - 2)) n); lia).
      assert (Ej : radd l 1 j = S j) by (unfold radd; fold n; destruct (Nat.ltb_spec (1 + j) n); lia).
      rewrite R1, R2. rewrite <- E.
      destruct (Z.ltb_spec base p); [apply (Hfound 1%nat (n - 2)%nat j); lia|].
      destruct (Z.ltb_spec p base); [apply (Hfound 1%nat (n - 2)%nat j); lia|lia].
    + cbn [pos_addr]. destruct (nth_error (sm_chunks l) k) as [e|] eqn:Hk.
      2:{ exfalso. apply nth_error_None in Hk. lia. }
      assert (Hjk : j <> k). { intros ->. unfold from_pos in F1. rewrite Hk in F1. rewrite Hj in Hk. inversion Hk; subst. congruence. }
      assert (Hee : chunk_ok e) by (rewrite Forall_forall in Hok; apply Hok; eapply nth_error_In; eauto).
      destruct Hee as (Hen & _).
      destruct (Nat.lt_trichotomy j k) as [L|[E|L]]; [|contradiction|].
      * (* the node's chunk lies before the cursor *)
        pose proof (sep_nth _ Hns _ _ Hok Hsep j k c e L Hj Hk) as Hs.
        destruct (Z.ltb_spec (c_mem e - sm_cmo) p); [unfold sm_cmo in *; lia|]. destruct (Z.ltb_spec p (c_mem e - sm_cmo)); [|unfold sm_cmo in *; lia].
        assert (R1 : ring_next l 0 = 1%nat) by (unfold ring_next; fold n; destruct (Nat.eqb_spec 1 n); lia).
        assert (R2 : ring_prev l (S k) = k) by reflexivity. rewrite R1, R2.
        assert (E : radd l 1 (k - 1) = k) by (unfold radd; fold n; destruct (Nat.ltb_spec (1 + (k - 1)) n); lia). rewrite <- E.
        apply (Hfound 1%nat (k - 1)%nat j); [lia|lia|lia|]. unfold radd; fold n; destruct (Nat.ltb_spec (1 + j) n); lia.
      * pose proof (sep_nth _ Hns _ _ Hok Hsep k j e c L Hk Hj) as Hs. unfold c_end in Hs.
        destruct (Z.ltb_spec (c_mem e - sm_cmo) p); [|unfold sm_cmo in *; nia].
        assert (R1 : ring_next l (S k) = S (S k)) by (unfold ring_next; fold n; destruct (Nat.eqb_spec (S (S k)) n); lia).
        assert (R2 : ring_prev l 0 = (n - 1)%nat) by reflexivity. rewrite R1, R2.
        assert (E : radd l (S (S k)) (n - 1 - S (S k)) = (n - 1)%nat) by (unfold radd; fold n; destruct (Nat.ltb_spec (S (S k) + (n - 1 - S (S k))) n); lia). rewrite <- E.
        apply (Hfound (S (S k)) (n - 1 - S (S k))%nat (j - S k)%nat); [lia|lia|lia|]. unfold radd; fold n; destruct (Nat.ltb_spec (S (S k) + (j - S k)) n); lia.
  - intros Hnone. unfold sm_find_node.
    assert (Hall : forall q, from_pos l p q = false).
    { intros [|i]; [reflexivity|]. unfold from_pos. destruct (nth_error (sm_chunks l) i) as [c|] eqn:E; [|reflexivity]. apply Hnone. eapply nth_error_In; eauto. }
    rewrite !Hall.
    assert (Hw : forall first last, (first < n)%nat -> (last < n)%nat -> walk_in n l p first last = FNotFound).
    { intros first last Hf Hl. destruct (radd_reach l first last Hf Hl) as [d [Hd Ed]]. rewrite <- Ed.
      apply (walk_in_spec l p n first d Hf Hd ltac:(fold n; lia)). intros k _. apply Hall. }
    assert (Hnext : forall a, (a < n)%nat -> (ring_next l a < n)%nat) by (intros a Ha; unfold ring_next; fold n; destruct (Nat.eqb_spec (S a) n); lia).
    assert (Hprev : forall a, (a < n)%nat -> (ring_prev l a < n)%nat) by (intros a Ha; unfold ring_prev; fold n; destruct a; lia).
    destruct (Z.ltb_spec (pos_addr base l (sm_dc l)) p); [destruct (Z.eqb_spec (pos_addr base l (sm_dc l)) p); [lia|]; apply Hw; [apply Hnext; exact Hdc|apply Hprev; lia]|].
    destruct (Z.ltb_spec p (pos_addr base l (sm_dc l))); [destruct (Z.eqb_spec (pos_addr base l (sm_dc l)) p); [lia|]; apply Hw; [apply Hnext; lia|apply Hprev; exact Hdc]|].
    destruct (Z.eqb_spec (pos_addr base l (sm_dc l)) p); [reflexivity|lia].
Qed.

(* ---------- deallocate as the code runs it ---------- *)
Lemma chunk_index_unique l p j c : SmInv l -> nth_error (sm_chunks l) j = Some c -> c_from (sm_ns l) c p = true -> chunk_index (sm_ns l) (sm_chunks l) p = Some j.
Proof.
  intros Hinv Hj Hc. destruct (chunk_index_complete (sm_ns l) (sm_chunks l) p c ltac:(eapply nth_error_In; eauto) Hc) as [i Hi].
  destruct (chunk_index_nth _ _ _ _ Hi) as [d [Hd Hfd]].
  assert (E : S i = S j) by (eapply from_pos_unique; eauto; unfold from_pos; rewrite Hd; exact Hfd). inversion E; subst. exact Hi.
Qed.

(* a valid release goes through whatever the configuration, and does what sm_dealloc says *)
Theorem sm_deallocate_valid base pc dbl l p c : SmInv l -> In c (sm_chunks l) -> c_from (sm_ns l) c p = true -> (p - c_mem c) mod sm_ns l = 0 ->
  ~ In p (free_addrs (sm_ns l) (sm_chunks l)) -> (forall e, In e (sm_chunks l) -> c_from (sm_ns l) e base = false) ->
  exists l', sm_deallocate base pc dbl l p = MOk l' /\ sm_dealloc l p = Some l'.
Proof.
  intros Hinv Hin Hfrom Hmod Hnot Hbase. apply In_nth_error in Hin. destruct Hin as [j Hj].
  destruct (find_node_spec base l p Hinv) as [F _]. unfold sm_deallocate. rewrite (F j c Hj Hfrom Hbase). rewrite Hj.
  unfold sm_dealloc. rewrite (chunk_index_unique l p j c Hinv Hj Hfrom), Hj. rewrite Hmod. cbn [Z.eqb negb]. rewrite andb_false_r. cbn [andb].
  assert (Hex : existsb (Z.eqb ((p - c_mem c) / sm_ns l)) (c_free c) = false).
  { destruct (existsb _ (c_free c)) eqn:E; [|reflexivity]. exfalso. apply Hnot. apply existsb_exists in E. destruct E as [x [Hx Ex]]. apply Z.eqb_eq in Ex. subst x.
    unfold free_addrs. apply in_flat_map. exists c. split; [eapply nth_error_In; eauto|]. unfold chunk_addrs. apply in_map_iff. exists ((p - c_mem c) / sm_ns l). split; [|exact Hx].
    destruct Hinv as (Hns & _). pose proof (Z.div_mod (p - c_mem c) (sm_ns l) ltac:(lia)) as Hdm. rewrite Hmod in Hdm. lia. }
  rewrite Hex, andb_false_r. eexists. split; reflexivity.
Qed.

(* a pointer that is in no chunk is never accepted and the search never runs on for ever: with the pointer check it is reported
   (or, when it is exactly the address of the cursor's chunk header, the unreachable-code handler aborts) *)
Theorem sm_deallocate_foreign base dbl l p : SmInv l -> (forall c, In c (sm_chunks l) -> c_from (sm_ns l) c p = false) ->
  sm_deallocate base true dbl l p = if pos_addr base l (sm_dc l) =? p then MAbort else MReported.
Proof.
  intros Hinv Hnone. destruct (find_node_spec base l p Hinv) as [_ F]. unfold sm_deallocate. rewrite (F Hnone).
  destruct (pos_addr base l (sm_dc l) =? p); reflexivity.
Qed.

(* a node between two boundaries, or one that is already free, is reported and nothing changes *)
Theorem sm_deallocate_bad_node base l p j c : SmInv l -> nth_error (sm_chunks l) j = Some c -> c_from (sm_ns l) c p = true ->
  (forall e, In e (sm_chunks l) -> c_from (sm_ns l) e base = false) ->
  ((p - c_mem c) mod sm_ns l <> 0 -> forall dbl, sm_deallocate base true dbl l p = MReported) /\
  (In p (free_addrs (sm_ns l) (sm_chunks l)) -> sm_deallocate base true true l p = MReported).
Proof.
  intros Hinv Hj Hc Hbase. destruct (find_node_spec base l p Hinv) as [F _]. unfold sm_deallocate. rewrite (F j c Hj Hc Hbase), Hj. split.
  - intros Hm dbl. destruct (Z.eqb_spec ((p - c_mem c) mod sm_ns l) 0); [contradiction|]. reflexivity.
  - intros Hin. destruct (Z.eqb_spec ((p - c_mem c) mod sm_ns l) 0) as [Hm|Hm]; [|reflexivity]. cbn [negb andb].
    assert (Hex : existsb (Z.eqb ((p - c_mem c) / sm_ns l)) (c_free c) = true); [|rewrite Hex; reflexivity].
    unfold free_addrs in Hin. apply in_flat_map in Hin. destruct Hin as [d [Hd Ha]].
    apply In_nth_error in Hd. destruct Hd as [i Hi].
    assert (Hfd : c_from (sm_ns l) d p = true).
    { pose proof Hinv as (Hns & Hok & _). rewrite Forall_forall in Hok. pose proof (chunk_addrs_range _ d p Hns (Hok d ltac:(eapply nth_error_In; eauto)) Ha) as [R1 R2].
      unfold c_from, c_end in *. apply andb_true_intro. split; [apply Z.leb_le; lia|apply Z.ltb_lt; lia]. }
    assert (E : S i = S j) by (eapply from_pos_unique; eauto; unfold from_pos; rewrite Hi; exact Hfd). inversion E; subst i. rewrite Hj in Hi. inversion Hi; subst d.
    unfold chunk_addrs in Ha. apply in_map_iff in Ha. destruct Ha as [x [Ex Hx]]. apply existsb_exists. exists x. split; [exact Hx|]. apply Z.eqb_eq.
    destruct Hinv as (Hns & _). subst p. replace (c_mem c + x * sm_ns l - c_mem c) with (x * sm_ns l) by ring. rewrite Z.div_mul by lia. reflexivity.
Qed.
