(* One stack per live thread, in every interleaving of any number of tthreads -- and why the three design points matter. *)
From Coq Require Import List Bool Arith Lia.
From FM Require Import TempList.
Import ListNotations.

Definition holdsP (x : thr) (s : nat) : Prop := t_live x = true /\ (t_ts x = Some s \/ t_hold x = Some s).

Lemma holds_iff x s : holds x s = true <-> holdsP x s.
Proof.
  unfold holds, holdsP. destruct (t_live x); cbn; [|split; [discriminate|intros [H _]; discriminate]].
  split.
  - intros H. split; [reflexivity|]. apply orb_true_iff in H as [H|H].
    + destruct (t_ts x) as [a|]; [|discriminate]. apply Nat.eqb_eq in H. subst. left; reflexivity.
    + destruct (t_hold x) as [a|]; [|discriminate]. apply Nat.eqb_eq in H. subst. right; reflexivity.
  - intros [_ [H|H]]; rewrite H; rewrite Nat.eqb_refl; [reflexivity|apply orb_true_r].
Qed.

Record TInv (g : gst) : Prop := {
  ti_dead  : forall t, nthreads g <= t -> t_live (tthreads g t) = false;
  ti_scan  : forall t l, t_live (tthreads g t) = true -> t_scan (tthreads g t) = Some l ->
               t_ts (tthreads g t) = None /\ t_hold (tthreads g t) = None /\ (forall s, In s l -> s < nstacks g);
  ti_hold  : forall t s, t_live (tthreads g t) = true -> t_hold (tthreads g t) = Some s -> t_ts (tthreads g t) = None;
  ti_used  : forall t s, holdsP (tthreads g t) s -> in_use g s = true;
  ti_excl  : forall t u s, holdsP (tthreads g t) s -> holdsP (tthreads g u) s -> t = u;
  ti_owner : forall s, in_use g s = true -> exists t, holdsP (tthreads g t) s;
  ti_det   : forall t s, t_live (tthreads g t) = true -> t_ts (tthreads g t) = Some s -> t_det (tthreads g t) = true;
  ti_range : forall s, nstacks g <= s -> in_use g s = false
}.

Lemma init_inv : TInv init_gst.
Proof.
  constructor; cbn; try discriminate; try reflexivity; intros.
  - destruct H as [H _]. discriminate.
  - destruct H as [H _]. discriminate.
Qed.

Ltac eqb_cases := repeat match goal with
  | |- context [Nat.eqb ?a ?b] => destruct (Nat.eqb_spec a b); subst
  | H : context [Nat.eqb ?a ?b] |- _ => destruct (Nat.eqb_spec a b); subst
  end.

Section Fixed.
Let c := fixed_cfg.

Lemma inv_start g t g' : TInv g -> tstep c g (EStart t) = Some g' -> TInv g'.
Proof.
  intros I. cbn. destruct (Nat.eqb_spec t (nthreads g)) as [->|]; [|discriminate]. intros H. injection H as <-.
  pose proof (ti_dead g I (nthreads g) (le_n _)) as Hd.
  constructor; cbn [nthreads tthreads in_use nstacks]; intros.
  - eqb_cases; [lia|]. apply (ti_dead g I). lia.
  - eqb_cases; [cbn in *; discriminate|]. eapply (ti_scan g I); eassumption.
  - eqb_cases; [cbn in *; discriminate|]. eapply (ti_hold g I); eassumption.
  - eqb_cases; [destruct H as [_ [H|H]]; cbn in H; discriminate|]. eapply (ti_used g I); eassumption.
  - eqb_cases; try (destruct H as [_ [H|H]]; cbn in H; discriminate); try (destruct H0 as [_ [H0|H0]]; cbn in H0; discriminate). eapply (ti_excl g I); eassumption.
  - destruct (ti_owner g I s H) as (u & Hu). exists u. eqb_cases; [|assumption]. destruct Hu as [Hl _]. rewrite Hd in Hl. discriminate.
  - eqb_cases; [cbn in *; discriminate|]. eapply (ti_det g I); eassumption.
  - apply (ti_range g I). assumption.
Qed.

Lemma inv_get g t g' : TInv g -> tstep c g (EGet t) = Some g' -> TInv g'.
Proof.
  intros I. cbn. unfold getT. destruct (t_live (tthreads g t)) eqn:L; [|discriminate]. destruct (freed g); [discriminate|]. cbn [negb andb].
  destruct (t_ts (tthreads g t)) eqn:Ts; [discriminate|]. destruct (t_hold (tthreads g t)) eqn:Hd; [discriminate|]. destruct (t_scan (tthreads g t)) eqn:Sc; [discriminate|].
  intros H. injection H as <-.
  assert (Hids : forall n s, In s (ids_desc n) -> s < n). { induction n as [|n IH]; cbn; intros s H; [destruct H|destruct H as [->|H]; [lia|specialize (IH s H); lia]]. }
  constructor; cbn [setT nthreads tthreads in_use nstacks mk]; intros.
  - eqb_cases; [|apply (ti_dead g I); assumption]. cbn. pose proof (ti_dead g I t H). congruence.
  - eqb_cases; [cbn in *; injection H0 as <-; repeat split; try reflexivity; apply Hids|eapply (ti_scan g I); eassumption].
  - eqb_cases; [cbn in *; discriminate|eapply (ti_hold g I); eassumption].
  - eqb_cases; [destruct H as [_ [H|H]]; cbn in H; discriminate|eapply (ti_used g I); eassumption].
  - eqb_cases; try (destruct H as [_ [H|H]]; cbn in H; discriminate); try (destruct H0 as [_ [H0|H0]]; cbn in H0; discriminate). eapply (ti_excl g I); eassumption.
  - destruct (ti_owner g I s H) as (u & Hu). exists u. eqb_cases; [|assumption]. destruct Hu as [_ [Hu|Hu]]; congruence.
  - eqb_cases; [cbn in *; discriminate|eapply (ti_det g I); eassumption].
  - apply (ti_range g I). assumption.
Qed.

Lemma inv_scan g t g' : TInv g -> tstep c g (EScan t) = Some g' -> TInv g'.
Proof.
  intros I. cbn. unfold getT. destruct (t_live (tthreads g t)) eqn:L; [|discriminate].
  destruct (t_scan (tthreads g t)) as [[|s rest]|] eqn:Sc; [| |discriminate].
  - (* list exhausted: create a new stack *)
    destruct (ti_scan g I t [] L Sc) as (Ts & Hd & _).
    intros H. injection H as <-.
    constructor; cbn [setT nthreads tthreads in_use nstacks mk]; intros.
    + eqb_cases; [|apply (ti_dead g I); assumption]. cbn. pose proof (ti_dead g I t H). congruence.
    + eqb_cases; [cbn in *; discriminate|]. destruct (ti_scan g I _ _ H H0) as (A & B & C). repeat split; try assumption. intros s Hs. specialize (C s Hs). lia.
    + eqb_cases; [cbn in *; rewrite Ts; reflexivity|eapply (ti_hold g I); eassumption].
    + eqb_cases; try reflexivity.
      * destruct H as [_ [H|H]]; cbn in H; [rewrite Ts in H; discriminate|]. injection H as <-. contradiction.
      * eapply (ti_used g I); eassumption.
    + assert (Hn : forall w, holdsP (tthreads g w) (nstacks g) -> False).
      { intros w Hw. pose proof (ti_used g I w _ Hw) as X. rewrite (ti_range g I (nstacks g) (le_n _)) in X. discriminate. }
      eqb_cases; try reflexivity.
      * destruct H0 as [_ [H0|H0]]; cbn in H0; [rewrite Ts in H0; discriminate|]. injection H0 as <-. exfalso. eapply Hn; eassumption.
      * destruct H as [_ [H|H]]; cbn in H; [rewrite Ts in H; discriminate|]. injection H as <-. exfalso. eapply Hn; eassumption.
      * eapply (ti_excl g I); eassumption.
    + destruct (Nat.eqb_spec s (nstacks g)) as [E|Hne].
      * exists t. rewrite Nat.eqb_refl. split; [reflexivity|right; cbn; rewrite E; reflexivity].
      * destruct (ti_owner g I s H) as (w & Hw). exists w. destruct (Nat.eqb_spec w t) as [->|]; [|assumption].
        destruct Hw as [_ [Hw|Hw]]; congruence.
    + eqb_cases; [cbn in *; reflexivity|eapply (ti_det g I); eassumption].
    + eqb_cases; [lia|]. apply (ti_range g I). lia.
  - (* a node is looked at *)
    destruct (ti_scan g I t _ L Sc) as (Ts & Hd & Hr).
    destruct (used g s) eqn:U; intros H; injection H as <-.
    + (* in use: go on *)
      constructor; cbn [setT nthreads tthreads in_use nstacks mk]; intros.
      * eqb_cases; [|apply (ti_dead g I); assumption]. cbn. pose proof (ti_dead g I t H). congruence.
      * eqb_cases; [cbn in *; injection H0 as <-; repeat split; try assumption; intros s0 Hs0; apply Hr; right; assumption|eapply (ti_scan g I); eassumption].
      * eqb_cases; [cbn in *; discriminate|eapply (ti_hold g I); eassumption].
      * eqb_cases; [destruct H as [_ [H|H]]; cbn in H; [rewrite Ts in H|]; discriminate|eapply (ti_used g I); eassumption].
      * eqb_cases; try reflexivity; try (destruct H as [_ [H|H]]; cbn in H; [rewrite Ts in H|]; discriminate); try (destruct H0 as [_ [H0|H0]]; cbn in H0; [rewrite Ts in H0|]; discriminate). eapply (ti_excl g I); eassumption.
      * destruct (ti_owner g I s0 H) as (w & Hw). exists w. eqb_cases; [|assumption]. destruct Hw as [_ [Hw|Hw]]; congruence.
      * eqb_cases; [cbn in *; rewrite Ts in H0; discriminate|eapply (ti_det g I); eassumption].
      * apply (ti_range g I). assumption.
    + (* free: adopt it *)
      unfold used in U.
      assert (Hn : forall w, holdsP (tthreads g w) s -> False). { intros w Hw. pose proof (ti_used g I w _ Hw) as X. congruence. }
      constructor; cbn [setT setU nthreads tthreads in_use nstacks mk]; intros.
      * eqb_cases; [|apply (ti_dead g I); assumption]. cbn. pose proof (ti_dead g I t H). congruence.
      * eqb_cases; [cbn in *; discriminate|eapply (ti_scan g I); eassumption].
      * eqb_cases; [cbn in *; rewrite Ts; reflexivity|eapply (ti_hold g I); eassumption].
      * eqb_cases; try reflexivity.
        -- destruct H as [_ [H|H]]; cbn in H; [rewrite Ts in H; discriminate|]. injection H as <-. contradiction.
        -- eapply (ti_used g I); eassumption.
      * eqb_cases; try reflexivity.
        -- destruct H0 as [_ [H0|H0]]; cbn in H0; [rewrite Ts in H0; discriminate|]. injection H0 as <-. exfalso. eapply Hn; eassumption.
        -- destruct H as [_ [H|H]]; cbn in H; [rewrite Ts in H; discriminate|]. injection H as <-. exfalso. eapply Hn; eassumption.
        -- eapply (ti_excl g I); eassumption.
      * destruct (Nat.eqb_spec s0 s) as [E|Hne].
        -- exists t. rewrite Nat.eqb_refl. split; [reflexivity|right; cbn; rewrite E; reflexivity].
        -- destruct (ti_owner g I s0 H) as (w & Hw). exists w. destruct (Nat.eqb_spec w t) as [->|]; [|assumption]. destruct Hw as [_ [Hw|Hw]]; congruence.
      * eqb_cases; [cbn in *; rewrite Ts in H0; discriminate|eapply (ti_det g I); eassumption].
      * eqb_cases; [|apply (ti_range g I); assumption]. specialize (Hr s (or_introl eq_refl)). lia.
Qed.

Lemma inv_store g t g' : TInv g -> tstep c g (EStore t) = Some g' -> TInv g'.
Proof.
  intros I. cbn. unfold getT. destruct (t_live (tthreads g t)) eqn:L; [|discriminate].
  destruct (t_hold (tthreads g t)) as [s|] eqn:Hd; [|discriminate]. intros H. injection H as <-.
  pose proof (ti_hold g I t s L Hd) as Ts.
  assert (Hme : holdsP (tthreads g t) s) by (split; [assumption|right; assumption]).
  constructor; cbn [setT nthreads tthreads in_use nstacks mk]; intros.
  - eqb_cases; [|apply (ti_dead g I); assumption]. cbn. pose proof (ti_dead g I t H). congruence.
  - eqb_cases; [cbn in *; discriminate|eapply (ti_scan g I); eassumption].
  - eqb_cases; [cbn in *; discriminate|eapply (ti_hold g I); eassumption].
  - eqb_cases; [|eapply (ti_used g I); eassumption]. destruct H as [_ [H|H]]; cbn in H; [|discriminate]. injection H as <-. eapply (ti_used g I); eassumption.
  - eqb_cases; try reflexivity.
    + destruct H0 as [_ [H0|H0]]; cbn in H0; [|discriminate]. injection H0 as <-. symmetry. eapply (ti_excl g I); eassumption.
    + destruct H as [_ [H|H]]; cbn in H; [|discriminate]. injection H as <-. eapply (ti_excl g I); eassumption.
    + eapply (ti_excl g I); eassumption.
  - destruct (ti_owner g I s0 H) as (w & Hw). exists w. eqb_cases; [|assumption].
    assert (s0 = s). { destruct Hw as [_ [Hw|Hw]]; congruence. } subst s0. split; [reflexivity|left; reflexivity].
  - eqb_cases; [cbn; apply orb_true_r|eapply (ti_det g I); eassumption].
  - apply (ti_range g I). assumption.
Qed.

Lemma inv_initdtor g t g' : TInv g -> tstep c g (EInitDtor t) = Some g' -> TInv g'.
Proof.
  intros I. cbn. unfold getT. destruct (t_live (tthreads g t)) eqn:L; [|discriminate].
  destruct (t_ts (tthreads g t)) as [s|] eqn:Ts; [|discriminate]. destruct (t_hold (tthreads g t)) eqn:Hd; [discriminate|]. destruct (t_scan (tthreads g t)) eqn:Sc; [discriminate|].
  intros H. injection H as <-.
  assert (Hme : holdsP (tthreads g t) s) by (split; [assumption|left; assumption]).
  constructor; cbn [setT setU nthreads tthreads in_use nstacks mk]; intros.
  - eqb_cases; [|apply (ti_dead g I); assumption]. cbn. pose proof (ti_dead g I t H). congruence.
  - eqb_cases; [cbn in *; discriminate|eapply (ti_scan g I); eassumption].
  - eqb_cases; [cbn in *; discriminate|eapply (ti_hold g I); eassumption].
  - eqb_cases; try (destruct H as [_ [H|H]]; cbn in H; discriminate).
    + exfalso. assert (t0 = t) by (eapply (ti_excl g I); eassumption). contradiction.
    + eapply (ti_used g I); eassumption.
  - eqb_cases; try reflexivity; try (destruct H as [_ [H|H]]; cbn in H; discriminate); try (destruct H0 as [_ [H0|H0]]; cbn in H0; discriminate). eapply (ti_excl g I); eassumption.
  - destruct (Nat.eqb_spec s0 s) as [E|Hne]; [discriminate|]. destruct (ti_owner g I s0 H) as (w & Hw). exists w. eqb_cases; [|assumption].
    exfalso. destruct Hw as [_ [Hw|Hw]]; congruence.
  - eqb_cases; [cbn in *; discriminate|eapply (ti_det g I); eassumption].
  - eqb_cases; [reflexivity|]. apply (ti_range g I). assumption.
Qed.

Lemma inv_exit g t g' : TInv g -> tstep c g (EExit t) = Some g' -> TInv g'.
Proof.
  intros I. cbn. unfold getT. destruct (t_live (tthreads g t)) eqn:L; [|discriminate].
  destruct (t_hold (tthreads g t)) eqn:Hd; [discriminate|]. destruct (t_scan (tthreads g t)) eqn:Sc; [discriminate|].
  intros H. injection H as <-.
  destruct (t_ts (tthreads g t)) as [s|] eqn:Ts.
  - rewrite (ti_det g I t s L Ts).
    assert (Hme : holdsP (tthreads g t) s) by (split; [assumption|left; assumption]).
    constructor; cbn [setT setU nthreads tthreads in_use nstacks dead_thr]; intros.
    + eqb_cases; [reflexivity|apply (ti_dead g I); assumption].
    + eqb_cases; [cbn in *; discriminate|eapply (ti_scan g I); eassumption].
    + eqb_cases; [cbn in *; discriminate|eapply (ti_hold g I); eassumption].
    + eqb_cases; try (destruct H as [H _]; cbn in H; discriminate).
      * exfalso. assert (t0 = t) by (eapply (ti_excl g I); eassumption). contradiction.
      * eapply (ti_used g I); eassumption.
    + eqb_cases; try reflexivity; try (destruct H as [H _]; cbn in H; discriminate); try (destruct H0 as [H0 _]; cbn in H0; discriminate). eapply (ti_excl g I); eassumption.
    + destruct (Nat.eqb_spec s0 s) as [E|Hne]; [discriminate|]. destruct (ti_owner g I s0 H) as (w & Hw). exists w. eqb_cases; [|assumption].
      exfalso. destruct Hw as [_ [Hw|Hw]]; congruence.
    + eqb_cases; [cbn in *; discriminate|eapply (ti_det g I); eassumption].
    + eqb_cases; [reflexivity|]. apply (ti_range g I). assumption.
  - constructor; cbn [setT setU nthreads tthreads in_use nstacks dead_thr]; intros.
    + eqb_cases; [reflexivity|apply (ti_dead g I); assumption].
    + eqb_cases; [cbn in *; discriminate|eapply (ti_scan g I); eassumption].
    + eqb_cases; [cbn in *; discriminate|eapply (ti_hold g I); eassumption].
    + eqb_cases; [destruct H as [H _]; cbn in H; discriminate|eapply (ti_used g I); eassumption].
    + eqb_cases; try reflexivity; try (destruct H as [H _]; cbn in H; discriminate); try (destruct H0 as [H0 _]; cbn in H0; discriminate). eapply (ti_excl g I); eassumption.
    + destruct (ti_owner g I s H) as (w & Hw). exists w. eqb_cases; [|assumption]. exfalso. destruct Hw as [_ [Hw|Hw]]; congruence.
    + eqb_cases; [cbn in *; discriminate|eapply (ti_det g I); eassumption].
    + apply (ti_range g I). assumption.
Qed.

Lemma inv_programexit g m g' : TInv g -> tstep c g (EProgramExit m) = Some g' -> TInv g'.
Proof.
  intros I. cbn. unfold getT. destruct (t_live (tthreads g m) && negb (freed g)); [|discriminate].
  intros H. injection H as <-. destruct I. constructor; cbn; assumption.
Qed.

Theorem step_inv g e g' : TInv g -> tstep c g e = Some g' -> TInv g'.
Proof.
  destruct e; [apply inv_start|apply inv_get|apply inv_scan|apply inv_store|apply inv_initdtor|apply inv_exit|apply inv_programexit].
Qed.

Theorem run_inv : forall es g g', TInv g -> trun c g es = Some g' -> TInv g'.
Proof.
  induction es as [|e tl IH]; intros g g' I H; cbn in H; [injection H as <-; assumption|].
  destruct (tstep c g e) as [g1|] eqn:S; [|discriminate]. eapply IH; [eapply step_inv; eassumption|eassumption].
Qed.
End Fixed.

(* ---- the property, for every schedule of any number of tthreads ---- *)
Theorem no_two_threads_share_a_stack es g : trun fixed_cfg init_gst es = Some g ->
  forall t u s, holdsP (tthreads g t) s -> holdsP (tthreads g u) s -> t = u.
Proof. intros H. exact (ti_excl g (run_inv es _ _ init_inv H)). Qed.

(* a stack whose thread is gone (or whose initializer was destroyed) is free again: in_use exactly while a live thread holds it *)
Theorem in_use_iff_held es g : trun fixed_cfg init_gst es = Some g ->
  forall s, in_use g s = true <-> exists t, holdsP (tthreads g t) s.
Proof.
  intros H s. pose proof (run_inv es _ _ init_inv H) as I. split; [apply (ti_owner g I)|intros (t & Ht); eapply (ti_used g I); eassumption].
Qed.

(* a new stack is only created by a thread whose walk over the list found every node it looked at in use *)
Theorem creation_only_after_exhausted_walk cf g t g' : tstep cf g (EScan t) = Some g' -> nstacks g' = S (nstacks g) ->
  t_scan (tthreads g t) = Some [].
Proof.
  cbn. unfold getT. destruct (t_live (tthreads g t)); [|discriminate]. destruct (t_scan (tthreads g t)) as [[|s rest]|]; [reflexivity| |discriminate].
  destruct (used g s); intros H; injection H as <-; cbn; intros E; lia.
Qed.

(* at program exit the list is destroyed whatever the main thread did *)
Theorem program_exit_frees_everything g m g' : tstep fixed_cfg g (EProgramExit m) = Some g' -> freed g' = true.
Proof. cbn. destruct (t_live (getT g m) && negb (freed g)); [|discriminate]. intros H. injection H as <-. reflexivity. Qed.

(* ---- why each design point is needed: refutations by schedule ---- *)
Definition old_cfg : cfg := {| reset_ts := false; detect_adopt := false; always_destroy := false |}.

(* the initializer's destructor marks the stack free but the thread keeps using it: a second thread adopts it *)
Theorem initializer_dtor_refuted : exists es g, trun {| reset_ts := false; detect_adopt := true; always_destroy := true |} init_gst es = Some g /\ shared g = true.
Proof.
  exists [EStart 0; EGet 0; EScan 0; EStore 0; EInitDtor 0; EStart 1; EGet 1; EScan 1; EStore 1]. eexists. split; [vm_compute; reflexivity|vm_compute; reflexivity].
Qed.

(* a thread that adopted a stack never arms its exit detector: the stack stays marked in use for ever *)
Theorem adopt_without_detector_refuted : exists es g, trun {| reset_ts := true; detect_adopt := false; always_destroy := true |} init_gst es = Some g /\ stranded g = true.
Proof.
  exists [EStart 0; EGet 0; EScan 0; EStore 0; EExit 0; EStart 1; EGet 1; EScan 1; EStore 1; EExit 1]. eexists. split; [vm_compute; reflexivity|vm_compute; reflexivity].
Qed.

(* only worker tthreads used temporary allocators: nothing is freed at program exit *)
Theorem destroy_gate_refuted : exists es g, trun {| reset_ts := true; detect_adopt := true; always_destroy := false |} init_gst es = Some g /\ freed g = false /\ nstacks g = 1.
Proof.
  exists [EStart 0; EStart 1; EGet 1; EScan 1; EStore 1; EExit 1; EProgramExit 0]. eexists. split; [vm_compute; reflexivity|split; vm_compute; reflexivity].
Qed.
