(* Byte-level model of the debug fill / fence machinery (detail/debug_helpers.cpp) and of the layout
   the low-level allocators build with it:  [ fence | node | fence ].   Executable. *)
From Coq Require Import ZArith List Bool Lia.
Import ListNotations.
Local Open Scope Z_scope.

Definition bytes := Z -> Z.                      (* address -> byte value *)

Definition magic_new : Z := 205.                 (* 0xCD *)
Definition magic_freed : Z := 221.               (* 0xDD *)
Definition magic_fence : Z := 253.               (* 0xFD *)

Definition fill (m : bytes) (a n v : Z) : bytes := fun x => if (a <=? x) && (x <? a + n) then v else m x.

(* debug_is_filled: address of the first byte in [a, a+n) that differs from v *)
Fixpoint is_filled (m : bytes) (a : Z) (n : nat) (v : Z) : option Z :=
  match n with O => None | S k => if m a =? v then is_filled m (a + 1) k v else Some a end.

(* debug_fill_new(memory, node_size, fence): returns the memory and the node address *)
Definition fill_new (m : bytes) (mem node_size fence : Z) : bytes * Z :=
  let m1 := fill m mem fence magic_fence in
  let m2 := fill m1 (mem + fence) node_size magic_new in
  let m3 := fill m2 (mem + fence + node_size) fence magic_fence in
  (m3, mem + fence).

(* debug_fill_free(node, node_size, fence): memory, overflow-handler calls (node, size, first dirty byte), start of the raw block *)
Definition fill_free (m : bytes) (node node_size fence : Z) : bytes * list (Z * Z * Z) * Z :=
  let m1 := fill m node node_size magic_freed in
  let pre := node - fence in
  let c1 := match is_filled m1 pre (Z.to_nat fence) magic_fence with Some d => [(node, node_size, d)] | None => [] end in
  let c2 := match is_filled m1 (node + node_size) (Z.to_nat fence) magic_fence with Some d => [(node, node_size, d)] | None => [] end in
  (m1, c1 ++ c2, pre).

(* a user program between allocation and release: a list of byte writes *)
Fixpoint apply_writes (m : bytes) (ws : list (Z * Z)) : bytes :=
  match ws with [] => m | (a, v) :: tl => apply_writes (fun x => if x =? a then v else m x) tl end.

(* what release reports for a node of the low-level layout after the user's writes *)
Definition lowlevel_cycle (m0 : bytes) (raw size fence : Z) (ws : list (Z * Z)) : list (Z * Z * Z) :=
  let '(m1, node) := fill_new m0 raw size fence in
  let m2 := apply_writes m1 ws in
  snd (fst (fill_free m2 node size fence)).
