(* C08 obligation computed on the call-shape table regenerated from fallback_allocator. *)
From Coq Require Import String List Bool.
From FM Require Import GenShapes ShapesLib ShapesCommon.
Import ListNotations.
Local Open Scope string_scope.

(* ---------- fallback_allocator (C08) ---------- *)
Definition try_name (n : string) : string :=
  if seqb n "allocate_node" then "try_allocate_node" else if seqb n "allocate_array" then "try_allocate_array"
  else if seqb n "deallocate_node" then "try_deallocate_node" else if seqb n "deallocate_array" then "try_deallocate_array" else n.

(* member n: first the composable function of the default allocator, and only if that reports failure the function
   of the same kind (node/array, allocate/deallocate) of the fallback allocator, with the same arguments *)
Definition fallback_member_ok (np : string * list string) : bool :=
  let '(n, ps) := np in
  exactly_one "fallback_allocator" n &&
  forallb (fun m =>
    slist_eqb (m_params m) ps &&
    has_call_in (try_name n) ("get_default_allocator()" :: ps) (before_if (if smem "ptr" ps then "!res" else "!ptr") (m_events m)) &&
    has_call_in n ("get_fallback_allocator()" :: ps) (inside_if (if smem "ptr" ps then "!res" else "!ptr") (m_events m)) &&
    negb (has_call_in n ("get_fallback_allocator()" :: ps) (before_if (if smem "ptr" ps then "!res" else "!ptr") (m_events m))))
    (mem_of "fallback_allocator" n).

Definition fallback_ok : bool := forallb fallback_member_ok alloc_members.

Theorem C08_shapes_hold : fallback_ok = true.
Proof. vm_compute. reflexivity. Qed.

