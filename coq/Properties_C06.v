(* C06 -- unwinding a memory stack restores exactly the state at the marker.
   Statements only; the model (Stack.v) is the Exec layer, tied to memory_stack<> by lock-step replay
   (addresses, markers, capacity_left, next_capacity and every upstream call). *)
From Coq Require Import ZArith List Bool.
From FM Require Import FixedStack Stack StackProofs StackUnwindProofs.
Import ListNotations.
Local Open Scope Z_scope.

(* Whatever happened since a marker was taken -- allocations of any size and alignment, block growth,
   nested markers and unwinds, shrink_to_fit, in any number -- unwinding to it gives back the block
   stack and the top of that moment, is not reported, and issues no upstream call. *)
Theorem C06_unwind_restores : forall fence, 0 <= fence -> forall s0 h, s_used s0 <> [] -> Forall op_ok h ->
  let st1 := hrun fence (s0, [(top_marker s0, s_used s0)]) h in
  forall gm, In gm (snd st1) ->
    let s2 := fst (fst (fst (step fence (fst st1) (SUnwind (fst gm)) None))) in
    s_used s2 = snd gm /\ s_top s2 = m_top (fst gm) /\
    snd (fst (fst (step fence (fst st1) (SUnwind (fst gm)) None))) = SDone /\
    snd (fst (step fence (fst st1) (SUnwind (fst gm)) None)) = [].
Proof. exact unwind_restores. Qed.
Print Assumptions C06_unwind_restores.

(* in particular the remaining capacity is what it was *)
Theorem C06_capacity_restored : forall fence, 0 <= fence -> forall s0 h, s_used s0 <> [] -> Forall op_ok h ->
  let st1 := hrun fence (s0, [(top_marker s0, s_used s0)]) h in
  In (top_marker s0, s_used s0) (snd st1) ->
  capacity_left (fst (fst (fst (step fence (fst st1) (SUnwind (top_marker s0)) None)))) = capacity_left s0.
Proof.
  intros fence Hf s0 h Hne Hok st1 Hin.
  pose proof (unwind_restores fence Hf s0 h Hne Hok _ Hin) as H. cbv zeta in H. fold st1 in H.
  destruct H as (E1 & E2 & _). cbn [fst snd] in E1, E2. unfold capacity_left, cur_end. rewrite E1, E2. reflexivity.
Qed.
Print Assumptions C06_capacity_restored.

(* blocks dropped by an unwind are kept in the cache, in the order that makes them come back first *)
Theorem C06_unwound_blocks_are_cached : forall fence s gm, s_used s <> [] -> mvalid s gm ->
  exists cache', fst (fst (fst (step fence s (SUnwind (fst gm)) None))) =
                   set_alloc s (snd gm) cache' (m_top (fst gm)) (s_next s)
                             (filter (keep (snd gm) (m_top (fst gm))) (s_live s)) /\
                 snd (fst (fst (step fence s (SUnwind (fst gm)) None))) = SDone /\
                 snd (fst (step fence s (SUnwind (fst gm)) None)) = [] /\
                 (exists dropped, s_used s = dropped ++ snd gm /\ cache' = rev dropped ++ s_cache s).
Proof. exact unwind_valid. Qed.
Print Assumptions C06_unwound_blocks_are_cached.

(* replay equality: unwind to the marker taken before a sequence of requests, issue the same requests
   again: same outcomes and addresses, served from the cache only (the replay gets no upstream answers) *)
Theorem C06_replay_equal : forall fence s rs s1 outs G, 0 <= fence -> s_used s <> [] ->
  Forall (fun r => 0 <= fst (fst r) /\ 0 < snd (fst r)) rs ->
  arun fence s rs = (s1, outs, G) -> Forall no_source_failure outs ->
  let s2 := proj_s (step fence s1 (SUnwind (top_marker s)) None) in
  s_used s2 = s_used s /\ s_top s2 = s_top s /\
  exists sf', arun fence s2 (map (fun r => (fst (fst r), snd (fst r), None)) rs) = (sf', outs, G) /\
              s_used sf' = s_used s1 /\ s_top sf' = s_top s1.
Proof. exact replay_equal. Qed.
Print Assumptions C06_replay_equal.

(* markers still valid are totally ordered, consistently with the order in which they were taken *)
Theorem C06_markers_ordered : forall fence, 0 <= fence -> forall s0 h, s_used s0 <> [] -> Forall op_ok h ->
  let st1 := hrun fence (s0, []) h in
  forall newer older rest1 rest2, snd st1 = rest1 ++ newer :: rest2 -> In older rest2 ->
    marker_le (fst older) (fst newer).
Proof. exact markers_totally_ordered. Qed.
Print Assumptions C06_markers_ordered.

(* no block goes back upstream before shrink_to_fit (or destruction): only SShrink produces a release *)
Theorem C06_release_only_on_shrink : forall fence s o ans,
  let '(s', out, calls, w) := step fence s o ans in
  o = SShrink \/ forallb (fun c => match c with UFree _ _ => false | _ => true end) calls = true.
Proof. exact release_only_on_shrink. Qed.
Print Assumptions C06_release_only_on_shrink.

(* older allocations are untouched: after any history of well-formed requests with fresh upstream blocks, unwinding to any
   marker that is still valid writes (the freed-memory fill of the range above the marker and of every block it drops) only
   outside every allocation that survives the unwind.  CInv = stack invariant + marker validity + "no live allocation
   straddles a marker", which holds for a freshly constructed stack and is preserved by every operation. *)
Theorem C06_older_allocations_untouched : forall fence, 0 <= fence -> forall st0 h, CInv st0 -> hall fence st0 h ->
  let st1 := hrun fence st0 h in
  forall gm, In gm (snd st1) ->
    let r := step fence (fst st1) (SUnwind (fst gm)) None in
    Forall (fun wr => Forall (adisj wr) (s_live (fst (fst (fst r))))) (snd r).
Proof. exact older_allocations_untouched. Qed.
Print Assumptions C06_older_allocations_untouched.

Theorem C06_invariant_along_histories : forall fence, 0 <= fence -> forall h st, CInv st -> hall fence st h -> CInv (hrun fence st h).
Proof. exact hrun_cinv. Qed.
Print Assumptions C06_invariant_along_histories.

Theorem C06_fresh_stack_satisfies_the_invariant : forall k bs a s calls, 0 < a -> hdr < bs -> init k bs (Some a) = Some (s, calls) -> CInv (s, []).
Proof. exact init_cinv. Qed.
Print Assumptions C06_fresh_stack_satisfies_the_invariant.

(* non-vacuity: a concrete history crossing two block boundaries with nested markers *)
Example C06_nonvacuous :
  let s0 := {| s_used := [(65536, 256)]; s_cache := []; s_top := 65552; s_next := 512; s_kind := SrcGrow; s_live := [] |} in
  let st := hrun 8 (s0, [(top_marker s0, s_used s0)])
                 [HAlloc 100 8 None; HTop; HAlloc 200 16 (Some 70000); HAlloc 600 8 (Some 80000); HUnwind 1; HAlloc 50 4 None] in
  length (s_used (fst st)) = 1%nat /\ length (s_cache (fst st)) = 2%nat /\ length (snd st) = 2%nat.
Proof. vm_compute. repeat split; reflexivity. Qed.
