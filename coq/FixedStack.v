(* detail::fixed_memory_stack: the bump allocator shared by memory_stack, iteration_allocator,
   static_allocator, joint allocations and the pool collection.  Executable model (Z addresses). *)
From Coq Require Import ZArith List Lia Bool.
Import ListNotations.
Local Open Scope Z_scope.

(* align_offset on Z: least d >= 0 with al | a + d (al > 0).  Bridged to the generated kernel in StackProofs.v *)
Definition align_off (a al : Z) : Z := (al - a mod al) mod al.

(* fixed_memory_stack::allocate(end, size, alignment, fence): Some (result, new top) or None (nullptr) *)
Definition fs_alloc (fence cur end_ size al : Z) : option (Z * Z) :=
  if cur =? 0 then None
  else
    let remaining := end_ - cur in
    let offset := align_off (cur + fence) al in
    if fence + offset + size + fence >? remaining then None
    else Some (cur + fence + offset, cur + fence + offset + size + fence).

(* bytes written by a successful allocate_unchecked: [cur, new top) -- fence, alignment padding, new-memory fill, fence *)
Definition fs_alloc_writes (cur top' : Z) : Z * Z := (cur, top' - cur).
