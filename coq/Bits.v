(* Bit-trick lemmas used to characterise the generated arithmetic kernel. Hand-written, stable. *)
From Coq Require Import NArith Bool Lia ZifyN ZifyBool.
From FM Require Import Wrap.
Local Open Scope N_scope.

Lemma pow2_pos k : 0 < 2^k. Proof. apply N.neq_0_lt_0, N.pow_nonzero; lia. Qed.

Lemma pow2_le_mono a b : a <= b -> 2^a <= 2^b.
Proof. intros. apply N.pow_le_mono_r; lia. Qed.

Lemma pow2_lt_64 k : k < 64 -> 2^k < 2^64.
Proof. intros. apply N.pow_lt_mono_r; lia. Qed.

Lemma wrap64_small x : x < 2^64 -> wrap64 x = x.
Proof. intros. unfold wrap64. apply N.mod_small. assumption. Qed.

Lemma wsub64_le x y : y <= x -> x < 2^64 -> wsub64 x y = x - y.
Proof.
  intros Hy Hx. unfold wsub64. rewrite (wrap64_small y) by lia.
  unfold wrap64. replace (x + 2^64 - y) with ((x - y) + 1 * 2^64) by lia.
  rewrite N.mod_add by (apply N.pow_nonzero; lia). apply N.mod_small. lia.
Qed.

Lemma wsub64_0_1 : wsub64 0 1 = 2^64 - 1.
Proof. reflexivity. Qed.

Lemma wnot64_small x : x < 2^64 -> wnot64 x = 2^64 - 1 - x.
Proof. intros. unfold wnot64. rewrite wrap64_small by assumption. reflexivity. Qed.

(* land with a low mask *)
Lemma land_low_mask x k : N.land x (2^k - 1) = x mod 2^k.
Proof. rewrite <- N.land_ones. f_equal. rewrite N.ones_equiv, N.pred_sub. reflexivity. Qed.

Lemma split_pow k : k <= 64 -> 2^64 = 2^(64-k) * 2^k.
Proof. intros. rewrite <- N.pow_add_r. f_equal. lia. Qed.

Lemma land_pow2_mask k x : k < 64 -> x < 2^64 -> N.land x (2^64 - 2^k) = x - x mod 2^k.
Proof.
  intros Hk Hx.
  assert (Hk0 : 2^k <> 0) by (apply N.pow_nonzero; lia).
  assert (Hl: 2^64 - 2^k = N.shiftl (N.ones (64 - k)) k).
  { rewrite N.shiftl_mul_pow2, N.ones_equiv, (split_pow k) by lia.
    set (p := 2^(64-k)) in *. set (q := 2^k) in *.
    assert (0 < p) by (apply N.neq_0_lt_0, N.pow_nonzero; lia).
    rewrite N.pred_sub. nia. }
  assert (Hd : x - x mod 2^k = N.shiftl (x / 2^k) k).
  { rewrite N.shiftl_mul_pow2. pose proof (N.div_mod x (2^k) Hk0) as H.
    set (q:=2^k) in *. set (d := x / q) in *. set (r := x mod q) in *. rewrite (N.mul_comm d q). set (m := q*d) in *. clearbody m d r. lia. }
  rewrite Hl, Hd.
  apply N.bits_inj. intros n.
  rewrite N.land_spec.
  destruct (N.ltb_spec n k).
  - rewrite !N.shiftl_spec_low by lia. apply Bool.andb_false_r.
  - rewrite !N.shiftl_spec_high' by lia.
    rewrite <- N.shiftr_div_pow2, N.shiftr_spec'.
    replace (n - k + k) with n by lia.
    destruct (N.ltb_spec (n-k) (64-k)).
    + rewrite N.ones_spec_low by lia. apply Bool.andb_true_r.
    + rewrite N.ones_spec_high by lia. rewrite Bool.andb_false_r.
      destruct (N.eq_dec x 0) as [->|]; [now rewrite N.bits_0|].
      assert (N.log2 x < 64) by (apply N.log2_lt_pow2; lia).
      rewrite N.bits_above_log2 by lia. reflexivity.
Qed.

(* power-of-two test *)
Lemma land_pred_pow2 k : N.land (2^k) (2^k - 1) = 0.
Proof. rewrite land_low_mask. apply N.mod_same. apply N.pow_nonzero; lia. Qed.

Lemma land_pred_nonpow2 a : 0 < a -> a <> 2^(N.log2 a) -> N.land a (a - 1) <> 0.
Proof.
  intros Ha Hn.
  pose proof (N.log2_spec a Ha) as [Hlo Hhi]. set (k := N.log2 a) in *.
  assert (Hbit: N.testbit a k = true) by (apply N.bit_log2; lia).
  assert (Hbit': N.testbit (a-1) k = true).
  { assert (2^k <= a - 1) by lia.
    assert (a - 1 < 2^(N.succ k)) by lia.
    assert (N.log2 (a-1) = k).
    { apply N.log2_unique; [lia|]. split; assumption. }
    rewrite <- H1. apply N.bit_log2. lia. }
  intro E. assert (N.testbit (N.land a (a-1)) k = true) by (rewrite N.land_spec, Hbit, Hbit'; reflexivity).
  rewrite E, N.bits_0 in H. discriminate.
Qed.

Lemma pow2_test a : 0 < a -> (N.land a (a - 1) = 0 <-> exists k, a = 2^k).
Proof.
  intros Ha. split.
  - intros H. exists (N.log2 a). destruct (N.eq_dec a (2^(N.log2 a))) as [E|E]; [exact E|].
    exfalso. apply (land_pred_nonpow2 a Ha E H).
  - intros [k ->]. apply land_pred_pow2.
Qed.

(* lowest set bit: for odd u, v with u + v = 2^m (m >= 1): land u v = 1 *)
Lemma even_pow2 m : 1 <= m -> N.even (2^m) = true.
Proof. intros. replace m with (N.succ (m-1)) by lia. rewrite N.pow_succ_r', N.even_mul. reflexivity. Qed.

Lemma odd_of_sum m u v : 1 <= m -> N.odd u = true -> u + v = 2^m -> N.odd v = true.
Proof.
  intros Hm Hu Huv. pose proof (even_pow2 m Hm) as H.
  rewrite <- Huv, N.even_add in H. rewrite <- N.negb_odd, Hu in H. cbn in H.
  rewrite <- N.negb_even. destruct (N.even v); [discriminate|reflexivity].
Qed.

Lemma land_odd_complement m u v : 1 <= m -> N.odd u = true -> u + v = 2^m -> N.land u v = 1.
Proof.
  intros Hm Hu Huv.
  pose proof (odd_of_sum m u v Hm Hu Huv) as Hv.
  assert (Hv1' : 1 <= v). { destruct (N.eq_dec v 0) as [->|]; [discriminate Hv|lia]. }
  assert (Hu1' : 1 <= u). { destruct (N.eq_dec u 0) as [->|]; [discriminate Hu|lia]. }
  assert (Hu2 : u < 2^m) by lia.
  apply N.bits_inj. intros n.
  rewrite N.land_spec.
  destruct (N.eq_dec n 0) as [->|Hn].
  - rewrite !N.bit0_odd, Hu, Hv. reflexivity.
  - assert (Hv1: v - 1 = N.lnot u m).
    { rewrite N.lnot_sub_low.
      - rewrite N.ones_equiv, N.pred_sub. lia.
      - apply N.log2_lt_pow2; lia. }
    assert (Hvodd : v = 2 * ((v-1)/2) + 1).
    { pose proof Hv as Hv'. apply N.odd_spec in Hv'. destruct Hv' as [q Hq]. rewrite Hq.
      replace (2*q+1-1) with (q*2) by lia. rewrite N.div_mul by lia. lia. }
    assert (Hbn : N.testbit v n = N.testbit (v-1) n).
    { rewrite Hvodd at 1. replace n with (N.succ (n-1)) by lia.
      rewrite N.testbit_odd_succ by lia.
      assert (Hev: v - 1 = 2 * ((v-1)/2)) by lia. rewrite Hev at 2. rewrite N.testbit_even_succ by lia. reflexivity. }
    rewrite Hbn, Hv1.
    replace (N.testbit 1 n) with false.
    2:{ symmetry. apply N.bits_above_log2. cbn. lia. }
    destruct (N.ltb_spec n m).
    + rewrite N.lnot_spec_low by assumption. apply andb_negb_r.
    + rewrite N.lnot_spec_high by assumption.
      replace (N.testbit u n) with false; [reflexivity|].
      symmetry. apply N.bits_above_log2. assert (N.log2 u < m) by (apply N.log2_lt_pow2; lia). lia.
Qed.

(* every positive number is 2^k * odd *)
Lemma odd_decomp_fuel (f : nat) : forall s, 0 < s -> s < 2 ^ N.of_nat f -> exists k u, s = 2^k * u /\ N.odd u = true.
Proof.
  induction f as [|f IH]; intros s Hs Hlt.
  - cbn in Hlt. lia.
  - destruct (N.odd s) eqn:Ho.
    + exists 0, s. split; [rewrite N.pow_0_r; lia|exact Ho].
    + assert (He : N.even s = true) by (rewrite <- N.negb_odd, Ho; reflexivity).
      apply N.even_spec in He. destruct He as [h Hh].
      destruct (IH h) as (k & u & Hk & Hu).
      * lia.
      * rewrite Nat2N.inj_succ, N.pow_succ_r' in Hlt. lia.
      * exists (N.succ k), u. split; [|exact Hu]. rewrite N.pow_succ_r'. lia.
Qed.

Lemma odd_decomp s : 0 < s -> exists k u, s = 2^k * u /\ N.odd u = true.
Proof.
  intros Hs. apply (odd_decomp_fuel (N.to_nat (N.size s))); [assumption|].
  rewrite N2Nat.id. apply N.size_gt.
Qed.

Lemma land_mul_pow2 k a b : N.land (2^k * a) (2^k * b) = 2^k * N.land a b.
Proof.
  rewrite !(N.mul_comm (2^k)). rewrite <- !N.shiftl_mul_pow2. symmetry. apply N.shiftl_land.
Qed.

(* s & (2^64 - s) is the largest power of two dividing s *)
Lemma lowbit s k u : s = 2^k * u -> N.odd u = true -> s < 2^64 -> N.land s (2^64 - s) = 2^k.
Proof.
  intros -> Hu Hlt.
  assert (Hu1 : 1 <= u). { destruct (N.eq_dec u 0) as [->|]; [discriminate Hu|lia]. }
  assert (Hk : k < 64).
  { destruct (N.ltb_spec k 64); [assumption|]. exfalso.
    assert (2^64 <= 2^k) by (apply pow2_le_mono; assumption). nia. }
  rewrite (split_pow k) by lia.
  replace (2^(64-k) * 2^k - 2^k * u) with (2^k * (2^(64-k) - u)) by nia.
  rewrite land_mul_pow2.
  rewrite (land_odd_complement (64-k) u (2^(64-k) - u)); [lia|lia|assumption|].
  assert (u < 2^(64-k)).
  { rewrite (split_pow k) in Hlt by lia. pose proof (pow2_pos k). nia. }
  lia.
Qed.
