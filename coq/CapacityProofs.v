(* C18 (T1): a block of min_block_size(ns, n) bytes yields at least n nodes, for every node size and count. *)
From Coq Require Import ZArith NArith Lia Bool ZifyN ZifyBool.
From FM Require Import Wrap Bits GenArith ArithModel ArithProofs FixedStack FixedStackProofs SmallCarve.
Local Open Scope Z_scope.
Ltac Zify.zify_post_hook ::= Z.div_mod_to_equations.

Definition cmo : Z := Z.of_N chunk_memory_offset.
Definition mx : Z := Z.of_N chunk_max_nodes.
Definition ca : Z := Z.of_N alignof_foonathan__memory__detail__chunk_base.

Lemma consts : cmo = 32 /\ mx = 255 /\ ca = 8 /\ Z.of_N implementation_offset = 16 /\
               Z.of_N free_memory_list_min_element_size = 8 /\ Z.of_N ordered_free_memory_list_min_element_size = 8.
Proof. repeat split; reflexivity. Qed.

(* ---------- intrusive lists ---------- *)
Lemma wmul64_small a b : (a * b < 2^64)%N -> wmul64 a b = (a * b)%N.
Proof. intros. unfold wmul64. apply wrap64_small. assumption. Qed.
Lemma wadd64_small a b : (a + b < 2^64)%N -> wadd64 a b = (a + b)%N.
Proof. intros. unfold wadd64. apply wrap64_small. assumption. Qed.

Theorem free_list_min_block_suffices ns n : (1 <= n)%N -> (N.max ns 8 * n < 2^64)%N ->
  l_nodes (Z.of_N (N.max ns 8)) (Z.of_N (free_list_min_block_size ns n)) = Z.of_N n.
Proof.
  intros Hn Hw. unfold free_list_min_block_size, l_nodes.
  change free_memory_list_min_element_size with 8%N.
  replace (if (ns <? 8)%N then 8%N else ns) with (N.max ns 8) by (destruct (N.ltb_spec ns 8); lia).
  rewrite wmul64_small by assumption. rewrite N2Z.inj_mul. rewrite Z.mul_comm. apply Z.div_mul. lia.
Qed.

Theorem ordered_list_min_block_suffices ns n : (1 <= n)%N -> (N.max ns 8 * n < 2^64)%N ->
  l_nodes (Z.of_N (N.max ns 8)) (Z.of_N (ordered_list_min_block_size ns n)) = Z.of_N n.
Proof.
  intros Hn Hw. unfold ordered_list_min_block_size, l_nodes.
  change ordered_free_memory_list_min_element_size with 8%N.
  replace (if (ns <? 8)%N then 8%N else ns) with (N.max ns 8) by (destruct (N.ltb_spec ns 8); lia).
  rewrite wmul64_small by assumption. rewrite N2Z.inj_mul. rewrite Z.mul_comm. apply Z.div_mul. lia.
Qed.

(* ---------- small list ---------- *)
Lemma stride_props ns : 1 <= ns -> let st := s_stride 32 255 8 ns in
  32 + 255 * ns <= st < 32 + 255 * ns + 8 /\ st mod 8 = 0.
Proof.
  intros Hns. cbv zeta. unfold s_stride, s_total.
  pose proof (align_off_bounds (32 + ns * 255) 8 ltac:(lia)).
  pose proof (align_off_aligns (32 + ns * 255) 8 ltac:(lia)). lia.
Qed.

Lemma chunk_count_Z n : (n < 2^63)%N ->
  Z.of_N (small_chunk_count n) = Z.of_N n / 255 + (if Z.of_N n mod 255 =? 0 then 0 else 1).
Proof.
  intros Hn. unfold small_chunk_count. change chunk_max_nodes with 255%N.
  assert (H63 : (2^63 < 2^64)%N) by reflexivity.
  rewrite wadd64_small.
  - rewrite N2Z.inj_add, N2Z.inj_div. change (Z.of_N 255) with 255. f_equal.
    destruct (N.eqb_spec (n mod 255) 0) as [E|E]; destruct (Z.eqb_spec (Z.of_N n mod 255) 0) as [E'|E']; try reflexivity; exfalso.
    + lia.
    + lia.
  - destruct (N.eqb_spec (n mod 255) 0); lia.
Qed.

(* the generated min_block_size is chunk_count * stride (no wrap) *)
Lemma small_min_block_Z ns n : (1 <= ns)%N -> (n < 2^40)%N -> (ns < 2^16)%N ->
  Z.of_N (small_list_min_block_size ns n) = Z.of_N (small_chunk_count n) * s_stride 32 255 8 (Z.of_N ns).
Proof.
  intros Hns Hn Hs. unfold small_list_min_block_size.
  change chunk_memory_offset with 32%N. change chunk_max_nodes with 255%N.
  change alignof_foonathan__memory__detail__chunk_base with (2^3)%N.
  assert (P16 : (2^16 = 65536)%N) by reflexivity. assert (P40 : (2^40 = 1099511627776)%N) by reflexivity.
  assert (P64 : (2^64 = 18446744073709551616)%N) by reflexivity.
  rewrite (wmul64_small 255 ns) by lia. rewrite wadd64_small by lia.
  pose proof (round_up_spec 3 (32 + 255 * ns)%N ltac:(lia) ltac:(lia)) as (R1 & R2 & R3). cbv zeta in *.
  set (r := round_up_to_multiple_of_alignment (32 + 255 * ns) (2^3)) in *.
  assert (Er : Z.of_N r = s_stride 32 255 8 (Z.of_N ns)).
  { pose proof (stride_props (Z.of_N ns) ltac:(lia)) as [S1 S2]. cbv zeta in *.
    set (st := s_stride 32 255 8 (Z.of_N ns)) in *. clearbody st r.
    change (2^3)%N with 8%N in *.
    assert (Z.of_N r mod 8 = 0) by lia.
    lia. }
  pose proof (chunk_count_Z n ltac:(lia)) as Ecc.
  rewrite wmul64_small.
  - rewrite N2Z.inj_mul, Er. reflexivity.
  - apply N2Z.inj_lt. rewrite N2Z.inj_mul, Er, Ecc.
    pose proof (stride_props (Z.of_N ns) ltac:(lia)) as [S1 S2]. cbv zeta in *.
    set (st := s_stride 32 255 8 (Z.of_N ns)) in *.
    assert (Z.of_N n / 255 + (if Z.of_N n mod 255 =? 0 then 0 else 1) <= Z.of_N n + 1) by (destruct (Z.of_N n mod 255 =? 0); lia).
    change (Z.of_N (2^64)) with 18446744073709551616. nia.
Qed.

Theorem small_min_block_suffices ns n : (1 <= ns)%N -> (1 <= n)%N -> (n < 2^40)%N -> (ns < 2^16)%N ->
  Z.of_N n <= s_nodes 32 255 8 (Z.of_N ns) (Z.of_N (small_list_min_block_size ns n)).
Proof.
  intros Hns Hn1 Hn Hs. rewrite small_min_block_Z by assumption.
  rewrite chunk_count_Z by (assert ((2^40 < 2^63)%N) by reflexivity; lia).
  pose proof (stride_props (Z.of_N ns) ltac:(lia)) as [S1 S2]. cbv zeta in *.
  unfold s_nodes, s_nochunks, s_rem_nodes, s_rem.
  set (st := s_stride 32 255 8 (Z.of_N ns)) in *.
  set (cc := Z.of_N n / 255 + (if Z.of_N n mod 255 =? 0 then 0 else 1)).
  rewrite Z.div_mul by lia. rewrite Z.mod_mul by lia.
  destruct (Z.leb_spec (32 + Z.of_N ns) 0); [lia|].
  unfold cc. destruct (Z.eqb_spec (Z.of_N n mod 255) 0); lia.
Qed.

(* what the formula was at the pinned commit: chunk_count * (cmo + 255 ns), without the padding *)
Definition small_min_block_orig (ns n : Z) : Z :=
  (n / 255 + (if n mod 255 =? 0 then 0 else 1)) * (32 + 255 * ns).
Theorem small_min_block_orig_refuted : exists ns n, 1 <= ns /\ 1 <= n /\
  s_nodes 32 255 8 ns (small_min_block_orig ns n) < n.
Proof. exists 1, 510. split; [lia|split; [lia|vm_compute; reflexivity]]. Qed.

(* the remainder chunk never holds more than 255 nodes, so the unsigned-char cast loses nothing *)
Theorem rem_chunk_fits_uchar ns size : 1 <= ns -> 0 <= size ->
  32 + ns <= s_rem 32 255 8 ns size -> (s_rem 32 255 8 ns size - 32) / ns <= 255.
Proof.
  intros Hns Hs Hr. pose proof (stride_props ns Hns) as [S1 S2]. cbv zeta in *. unfold s_rem in *.
  set (st := s_stride 32 255 8 ns) in *.
  pose proof (Z.mod_pos_bound size st ltac:(lia)) as Hb. set (r := size mod st) in *.
  assert (Hab : st - (32 + 255 * ns) <= ns).
  { destruct (Z_lt_le_dec ns 8) as [Hl|Hg]; [|lia].
    unfold st, s_stride, s_total, align_off.
    assert (Hc : ns = 1 \/ ns = 2 \/ ns = 3 \/ ns = 4 \/ ns = 5 \/ ns = 6 \/ ns = 7) by lia.
    destruct Hc as [->|[->|[->|[->|[->|[->| ->]]]]]]; vm_compute; discriminate. }
  apply Z.lt_succ_r. apply Z.div_lt_upper_bound; [lia|]. lia.
Qed.

(* every chunk produced by insert lies inside the inserted memory *)
Theorem chunks_inside ns size c : 1 <= ns -> 0 <= size -> 0 <= c < s_nochunks 32 255 8 ns size ->
  0 <= c * s_stride 32 255 8 ns /\ c * s_stride 32 255 8 ns + (32 + 255 * ns) <= size.
Proof.
  intros Hns Hs Hc. pose proof (stride_props ns Hns) as [S1 S2]. cbv zeta in *. unfold s_nochunks in *.
  set (st := s_stride 32 255 8 ns) in *.
  pose proof (Z.mul_div_le size st ltac:(lia)) as Hmd. split; nia.
Qed.

(* ---------- arena / stack ---------- *)
Theorem arena_min_block_size_exact b : (b + 16 < 2^64)%N ->
  (arena_min_block_size b - implementation_offset = b)%N.
Proof.
  intros H. unfold arena_min_block_size. change implementation_offset with 16%N.
  rewrite wadd64_small by lia. lia.
Qed.
