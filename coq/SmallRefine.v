(* The Exec model of the small free list (SmallList.v) refines the Spec list of PoolSpec.v: the nodes the carved chunks
   offer are exactly the slots the Spec attributes to the inserted range, every node handed out passes take_slots, every
   release passes give_slots, and the capacity figures agree -- over every history. *)
From Coq Require Import ZArith NArith List Bool Lia Arith Permutation.
From FM Require Import GenArith FixedStack SmallCarve PoolSpec InvalidRelease SmallList SmallListProofs CapacityProofs.
Import ListNotations.
Local Open Scope Z_scope.

Lemma consts : cmoZ = 32 /\ mxZ = 255 /\ caZ = 8 /\ sm_cmo = 32 /\ sm_cmax = 255 /\ sm_calign = 8.
Proof. repeat split; vm_compute; reflexivity. Qed.

(* ---------- which addresses the carved chunks offer ---------- *)
Lemma iota_map_in n m ns a : In a (map (fun i => m + i * ns) (iota n 0)) <-> exists i, 0 <= i < Z.of_nat n /\ a = m + i * ns.
Proof.
  rewrite in_map_iff. split.
  - intros [i [E Hi]]. apply iota_in in Hi. exists i. split; [lia|auto].
  - intros [i [Hi E]]. exists i. split; [auto|]. apply iota_in. lia.
Qed.

Lemma full_chunks_addrs ns st k : forall mem a,
  In a (free_addrs ns (full_chunks k mem st)) <-> exists j i, 0 <= j < Z.of_nat k /\ 0 <= i < 255 /\ a = mem + j * st + 32 + i * ns.
Proof.
  induction k as [|k IH]; intros mem a; cbn [full_chunks free_addrs flat_map].
  - split; [intros []|intros (j & i & Hj & _); lia].
  - rewrite in_app_iff. unfold chunk_addrs at 1. cbn [c_mem c_free]. fold (free_addrs ns (full_chunks k (mem + st) st)).
    rewrite iota_map_in, IH. change sm_cmo with 32. split.
    + intros [[i [Hi E]]|(j & i & Hj & Hi & E)].
      * exists 0, i. split; [lia|]. split; [lia|]. lia.
      * exists (j + 1), i. split; [lia|]. split; [lia|]. lia.
    + intros (j & i & Hj & Hi & E). destruct (Z.eq_dec j 0) as [->|N].
      * left. exists i. split; [lia|]. lia.
      * right. exists (j - 1), i. split; [lia|]. split; [lia|]. lia.
Qed.

Lemma carve_addrs ns mem size a : 1 <= ns -> 0 <= size ->
  let st := s_stride 32 255 8 ns in let k := size / st in let r := size mod st in
  In a (free_addrs ns (carve ns mem size)) <->
  (exists j i, 0 <= j < k /\ 0 <= i < 255 /\ a = mem + j * st + 32 + i * ns) \/
  (32 + ns <= r /\ exists i, 0 <= i < ((r - 32) / ns) mod 256 /\ a = mem + k * st + 32 + i * ns).
Proof.
  intros Hns Hsz. cbv zeta. unfold carve. change sm_cmo with 32. change sm_cmax with 255. change sm_calign with 8.
  unfold s_nochunks, s_rem_nodes, s_rem. set (st := s_stride 32 255 8 ns).
  pose proof (stride_props ns Hns) as [S1 _]. cbv zeta in S1. fold st in S1.
  assert (Hk : 0 <= size / st) by (apply Z.div_pos; lia).
  rewrite free_addrs_app, in_app_iff, full_chunks_addrs. rewrite Z2Nat.id by lia.
  destruct (Z.leb_spec (32 + ns) (size mod st)) as [Hr|Hr].
  - cbn [free_addrs flat_map]. rewrite app_nil_r. unfold chunk_addrs. cbn [c_mem c_free]. rewrite iota_map_in.
    assert (Hrn : 0 <= ((size mod st - 32) / ns) mod 256) by (apply Z.mod_pos_bound; lia). rewrite Z2Nat.id by lia.
    split; (intros [H|H]; [left; exact H|right]).
    + split; [exact Hr|]. destruct H as [i [Hi E]]. exists i. split; [exact Hi|lia].
    + destruct H as [_ [i [Hi E]]]. exists i. split; [exact Hi|lia].
  - cbn [free_addrs flat_map]. split; [intros [H|[]]; left; exact H|intros [H|[H _]]; [left; exact H|lia]].
Qed.

Lemma divmod_unique off st j q : 0 <= q < st -> off = j * st + q -> off / st = j /\ off mod st = q.
Proof.
  intros Hq E. split.
  - symmetry. apply (Z.div_unique_pos off st j q); [exact Hq|lia].
  - symmetry. apply (Z.mod_unique_pos off st j q); [exact Hq|lia].
Qed.

(* the nodes the carved chunks offer are exactly the slots the Spec attributes to the range *)
Theorem carve_slots ns mem size a : 1 <= ns -> 0 <= size ->
  In a (free_addrs ns (carve ns mem size)) <-> is_slot LSmall ns (mem, size) a = true.
Proof.
  intros Hns Hsz. rewrite (carve_addrs ns mem size a Hns Hsz). cbv zeta.
  unfold is_slot. destruct consts as (-> & -> & -> & _). cbn [fst snd].
  unfold s_nochunks, s_rem_nodes, s_rem. set (st := s_stride 32 255 8 ns).
  pose proof (stride_props ns Hns) as [S1 _]. cbv zeta in S1. fold st in S1.
  assert (Hk : 0 <= size / st) by (apply Z.div_pos; lia).
  pose proof (Z.mod_pos_bound size st ltac:(lia)) as Hr.
  set (k := size / st) in *. set (r := size mod st) in *.
  split.
  - intros [(j & i & Hj & Hi & E)|(Hrr & i & Hi & E)].
    + destruct (divmod_unique (a - mem) st j (32 + i * ns) ltac:(nia) ltac:(lia)) as [-> ->].
      replace (32 + i * ns - 32) with (i * ns) by ring. rewrite Z_mod_mult, Z.div_mul by lia.
      destruct (Z.ltb_spec j k); [|lia].
      repeat (apply andb_true_intro; split); try reflexivity; try apply Z.eqb_refl; try (apply Z.leb_le; nia); try (apply Z.ltb_lt; lia).
    + assert (Hb : ((r - 32) / ns) mod 256 <= (r - 32) / ns) by (apply Z.mod_le; [apply Z.div_pos; lia|lia]).
      assert (Hfit : (i + 1) * ns <= r - 32). { pose proof (Z.mul_div_le (r - 32) ns ltac:(lia)). nia. }
      destruct (divmod_unique (a - mem) st k (32 + i * ns) ltac:(nia) ltac:(lia)) as [-> ->].
      replace (32 + i * ns - 32) with (i * ns) by ring. rewrite Z_mod_mult, Z.div_mul by lia.
      destruct (Z.ltb_spec k k); [lia|]. rewrite !Z.eqb_refl. destruct (Z.leb_spec (32 + ns) r); [|lia].
      repeat (apply andb_true_intro; split); try reflexivity; try apply Z.eqb_refl; try (apply Z.leb_le; nia); try (apply Z.ltb_lt; lia).
  - intros H. apply andb_prop in H. destruct H as [H H4]. apply andb_prop in H. destruct H as [H H3]. apply andb_prop in H. destruct H as [H1 H2].
    apply Z.leb_le in H1. apply Z.leb_le in H2. apply Z.eqb_eq in H3. apply Z.ltb_lt in H4.
    pose proof (Z.div_mod (a - mem) st ltac:(lia)) as Hdm. pose proof (Z.mod_pos_bound (a - mem) st ltac:(lia)) as Hq.
    assert (Hc : 0 <= (a - mem) / st) by (apply Z.div_pos; lia).
    set (c := (a - mem) / st) in *. set (q := (a - mem) mod st) in *.
    pose proof (Z.div_mod (q - 32) ns ltac:(lia)) as Hdq. rewrite H3 in Hdq.
    assert (Hi0 : 0 <= (q - 32) / ns) by (apply Z.div_pos; lia). set (i := (q - 32) / ns) in *.
    destruct (Z.ltb_spec c k) as [L|L].
    + left. exists c, i. split; [lia|]. split; [lia|]. lia.
    + destruct (Z.eqb_spec c k) as [E|E]; [|lia]. right. destruct (Z.leb_spec (32 + ns) r) as [Hrr|Hrr]; [|lia].
      split; [exact Hrr|]. exists i. split; [lia|]. lia.
Qed.

(* ---------- the simulation ---------- *)
Definition sl (ns : Z) (live : list Z) (nfree : Z) : lst :=
  {| l_kind := LSmall; l_ns := ns; l_allocs := map (fun p => (p, 1)) live; l_nfree := nfree |}.

Record sspec := { ss_rs : list tagged; ss_l : lst }.
(* the Spec's view of one list-level operation: res is the address allocate() returned *)
Definition ss_step (s : sspec) (o : sm_op) (res : option Z) : option sspec :=
  let l := ss_l s in
  match o with
  | GIns mem size =>
      Some {| ss_rs := (l_ns l, (mem, size)) :: ss_rs s;
              ss_l := {| l_kind := l_kind l; l_ns := l_ns l; l_allocs := l_allocs l; l_nfree := l_nfree l + nodes_of (l_kind l) (l_ns l) (mem, size) |} |}
  | GAlloc => match res with
              | Some p => match take_slots (ss_rs s) l p 1 with Some l' => Some {| ss_rs := ss_rs s; ss_l := l' |} | None => None end
              | None => None
              end
  | GDealloc p => match give_slots l p 1 with Some l' => Some {| ss_rs := ss_rs s; ss_l := l' |} | None => None end
  end.
Definition result_of (o : sm_op) (g' : smg) : option Z := match o with GAlloc => hd_error (g_live g') | _ => None end.

(* both runs side by side: the Exec list and the Spec's bookkeeping of the same history *)
Fixpoint corun (g : smg) (s : sspec) (os : list sm_op) : option (smg * sspec) :=
  match os with
  | [] => Some (g, s)
  | o :: tl => match gstep g o with
               | Some g' => match ss_step s o (result_of o g') with Some s' => corun g' s' tl | None => None end
               | None => None
               end
  end.

Lemma live_slots_sl ns live n : live_slots (sl ns live n) = live.
Proof. unfold live_slots, sl. cbn [l_allocs l_ns]. induction live as [|p tl IH]; cbn [map flat_map fst snd]; [reflexivity|]. rewrite IH. reflexivity. Qed.

Lemma zmem_spec a l : zmem a l = true <-> In a l.
Proof. unfold zmem. rewrite existsb_exists. split; [intros [x [Hx E]]; apply Z.eqb_eq in E; subst; exact Hx|intros H; exists a; split; [exact H|apply Z.eqb_refl]]. Qed.

Lemma in_free_spec rs l a : in_free rs l a = true <-> slot_of rs l a = true /\ ~ In a (live_slots l).
Proof.
  unfold in_free. rewrite andb_true_iff, negb_true_iff. split; intros [H1 H2]; split; try exact H1.
  - intros Hin. apply zmem_spec in Hin. congruence.
  - destruct (zmem a (live_slots l)) eqn:E; [|reflexivity]. apply zmem_spec in E. contradiction.
Qed.

Lemma remove_alloc_map p : forall live, In p live -> remove_alloc p 1 (map (fun q => (q, 1)) live) = Some (map (fun q => (q, 1)) (remove_z p live)).
Proof.
  induction live as [|x tl IH]; intros Hin; [destruct Hin|]. cbn [map remove_alloc remove_z]. rewrite Z.eqb_refl, andb_true_r.
  destruct (Z.eqb_spec x p) as [->|N]; [reflexivity|]. destruct Hin as [E|Hin]; [congruence|]. rewrite (IH Hin). reflexivity.
Qed.

Lemma remove_z_in p : forall l a, NoDup l -> (In a (remove_z p l) <-> In a l /\ a <> p).
Proof.
  induction l as [|x tl IH]; intros a Hnd; cbn [remove_z]; [tauto|]. inversion Hnd as [|? ? Hx Htl]; subst.
  destruct (Z.eqb_spec x p) as [->|N].
  - split; [intros H; split; [right; exact H|intros ->; contradiction]|intros [[E|H] Hne]; [congruence|exact H]].
  - cbn [In]. rewrite (IH a Htl). split.
    + intros [E|[H Hne]]; [subst; split; [left; reflexivity|exact N]|split; [right; exact H|exact Hne]].
    + intros [[E|H] Hne]; [left; exact E|right; split; assumption].
Qed.

Definition R (g : smg) (s : sspec) : Prop :=
  let ns := sm_ns (g_l g) in
  GInv g /\ ss_l s = sl ns (g_live g) (sm_capacity (g_l g)) /\
  (forall a, In a (g_live g) -> slot_of (ss_rs s) (ss_l s) a = true) /\
  (forall a, In a (free_addrs ns (sm_chunks (g_l g))) <-> in_free (ss_rs s) (ss_l s) a = true).

Definition slotb (rs : list tagged) (ns a : Z) : bool := slot_of rs (sl ns [] 0) a.
Lemma slot_of_sl rs ns live n a : slot_of rs (sl ns live n) a = slotb rs ns a.
Proof. reflexivity. Qed.

Lemma sm_insert_free l mem size :
  Permutation (free_addrs (sm_ns l) (sm_chunks (sm_insert l mem size))) (free_addrs (sm_ns l) (carve (sm_ns l) mem size) ++ free_addrs (sm_ns l) (sm_chunks l)).
Proof.
  unfold sm_insert. cbn [sm_chunks]. unfold free_addrs at 1. rewrite (insert_sorted_perm (sm_chunks l) (carve (sm_ns l) mem size) (mem + sm_cmo)).
  rewrite flat_map_app. apply Permutation_refl.
Qed.

Lemma carve_addr_inside ns mem size a : 1 <= ns -> 0 <= size -> In a (free_addrs ns (carve ns mem size)) -> mem <= a /\ a + ns <= mem + size.
Proof.
  intros Hns Hsz Ha. destruct (carve_props ns mem size Hns Hsz) as (C1 & C2 & C3 & _).
  pose proof (free_addrs_above ns mem _ a ltac:(lia) C3 C1 Ha) as Hlo.
  destruct (free_addrs_node_in_chunk ns _ a ltac:(lia) C3 Ha) as (c & Hc & _ & G2 & _).
  unfold ends_below in C2. rewrite Forall_forall in C2. specialize (C2 c Hc). lia.
Qed.

Lemma perm_in_iff (a : Z) l1 l2 : Permutation l1 l2 -> (In a l1 <-> In a l2).
Proof. intros H. split; [apply Permutation_in; exact H|apply Permutation_in; apply Permutation_sym; exact H]. Qed.

Lemma slot_of_cons ns r rs live n a :
  slot_of ((ns, r) :: rs) (sl ns live n) a = is_slot LSmall ns r a || slotb rs ns a.
Proof. unfold slotb, slot_of. cbn [existsb fst snd sl l_ns l_kind]. rewrite Z.eqb_refl. reflexivity. Qed.

Theorem step_refines g s o g' : R g s -> gstep g o = Some g' -> exists s', ss_step s o (result_of o g') = Some s' /\ R g' s'.
Proof.
  intros (Hg & Hl & Hlive0 & Hfree0) Hstep. pose proof (gstep_inv g o g' Hg Hstep) as Hg'.
  pose proof Hg as (Hinv & Hnd & Hgrid). pose proof Hinv as (Hns & Hok & [lo Hsep] & _).
  cbv zeta in *. destruct s as [rs l]. cbn [ss_l ss_rs] in *. subst l.
  assert (Hlive : forall a, In a (g_live g) -> slotb rs (sm_ns (g_l g)) a = true).
  { intros a Ha. rewrite <- (slot_of_sl rs _ (g_live g) (sm_capacity (g_l g))). exact (Hlive0 a Ha). }
  assert (Hfree : forall a, In a (free_addrs (sm_ns (g_l g)) (sm_chunks (g_l g))) <-> slotb rs (sm_ns (g_l g)) a = true /\ ~ In a (g_live g)).
  { intros a. rewrite (Hfree0 a), in_free_spec, live_slots_sl, slot_of_sl. reflexivity. }
  clear Hlive0 Hfree0.
  destruct o as [mem size| |p]; cbn [gstep] in Hstep.
  - (* insert *)
    destruct ((0 <? size) && forallb _ (sm_chunks (g_l g))) eqn:Hpre; [|discriminate]. inversion Hstep; subst g'; clear Hstep.
    apply andb_prop in Hpre. destruct Hpre as [Hs Hall]. apply Z.ltb_lt in Hs. rewrite forallb_forall in Hall.
    assert (Hdis : forall c, In c (sm_chunks (g_l g)) -> c_end (sm_ns (g_l g)) c <= mem \/ mem + size <= c_mem c - sm_cmo).
    { intros c Hc. specialize (Hall c Hc). apply orb_prop in Hall. rewrite c_end_b_eq in Hall. destruct Hall as [H|H]; [left|right]; apply Z.leb_le; exact H. }
    destruct (sm_insert_spec (g_l g) mem size Hinv Hs Hdis) as (_ & Hcap & _). cbv zeta in Hcap.
    cbn [ss_step result_of ss_l ss_rs sl l_kind l_ns l_allocs l_nfree].
    exists {| ss_rs := (sm_ns (g_l g), (mem, size)) :: rs; ss_l := sl (sm_ns (g_l g)) (g_live g) (sm_capacity (sm_insert (g_l g) mem size)) |}. split.
    { unfold sl. do 3 f_equal. rewrite Hcap. unfold nodes_of. cbn [snd]. destruct consts as (-> & -> & -> & -> & -> & ->). reflexivity. }
    unfold R. cbn [g_l g_live ss_l ss_rs]. change (sm_ns (sm_insert (g_l g) mem size)) with (sm_ns (g_l g)).
    split; [exact Hg'|]. split; [reflexivity|]. split.
    + intros a Ha. rewrite slot_of_cons. rewrite (Hlive a Ha). apply orb_true_r.
    + intros a. rewrite (perm_in_iff a _ _ (sm_insert_free (g_l g) mem size)). rewrite in_app_iff, in_free_spec, live_slots_sl, slot_of_cons.
      rewrite (carve_slots (sm_ns (g_l g)) mem size a ltac:(lia) ltac:(lia)). rewrite (Hfree a). rewrite orb_true_iff. split.
      * intros [Hslot|[H1 H2]]; [|split; [right; exact H1|exact H2]]. split; [left; exact Hslot|]. intros Hin.
        apply (carve_slots (sm_ns (g_l g)) mem size a ltac:(lia) ltac:(lia)) in Hslot. apply (carve_addr_inside (sm_ns (g_l g)) mem size a ltac:(lia) ltac:(lia)) in Hslot.
        rewrite Forall_forall in Hgrid. destruct (Hgrid a Hin) as (c & Hc & G1 & G2 & _). unfold sm_cmo in *. destruct (Hdis c Hc); lia.
      * intros [[Hslot|Hslot] Hnl]; [left; exact Hslot|right; split; assumption].
  - (* allocate *)
    destruct (0 <? sm_capacity (g_l g)) eqn:Hcap; [|discriminate]. apply Z.ltb_lt in Hcap.
    destruct (sm_alloc_spec (g_l g) Hinv Hcap) as (p & l' & E & A1 & A2 & A3 & A4 & A5 & A6). rewrite E in Hstep. inversion Hstep; subst g'; clear Hstep.
    cbn [result_of g_live hd_error ss_step ss_l ss_rs]. rewrite A4 in A3.
    assert (Hp : In p (free_addrs (sm_ns (g_l g)) (sm_chunks (g_l g)))) by (apply (perm_in_iff p _ _ A3); left; reflexivity).
    pose proof (proj1 (Hfree p) Hp) as [Hps Hpl].
    assert (Hpf : in_free rs (sl (sm_ns (g_l g)) (g_live g) (sm_capacity (g_l g))) p = true).
    { apply in_free_spec. rewrite live_slots_sl, slot_of_sl. split; assumption. }
    unfold take_slots. cbn [l_nfree l_ns l_kind l_allocs sl]. change (Z.to_nat 1) with 1%nat. cbn [slot_addrs forallb].
    fold (sl (sm_ns (g_l g)) (g_live g) (sm_capacity (g_l g))). rewrite Hpf. destruct (Z.leb_spec 1 1); [|lia]. destruct (Z.leb_spec 1 (sm_capacity (g_l g))); [|lia]. cbn [andb].
    eexists. split; [reflexivity|]. unfold R. cbn [g_l g_live ss_l ss_rs]. rewrite A4.
    change {| l_kind := LSmall; l_ns := sm_ns (g_l g); l_allocs := (p, 1) :: map (fun q => (q, 1)) (g_live g); l_nfree := sm_capacity (g_l g) - 1 |} with (sl (sm_ns (g_l g)) (p :: g_live g) (sm_capacity (g_l g) - 1)).
    split; [exact Hg'|]. split; [rewrite A2; reflexivity|]. split.
    + intros a [<-|Ha]; [change (slotb rs (sm_ns (g_l g)) p = true); exact Hps|change (slotb rs (sm_ns (g_l g)) a = true); exact (Hlive a Ha)].
    + intros a. rewrite in_free_spec, live_slots_sl, slot_of_sl.
      assert (Hndf : NoDup (free_addrs (sm_ns (g_l g)) (sm_chunks (g_l g)))) by (eapply free_addrs_nodup; eauto).
      eapply Permutation_NoDup in Hndf; [|exact A3]. inversion Hndf as [|? ? Hpn _]; subst.
      pose proof (perm_in_iff a _ _ A3) as Hpa. cbn [In] in Hpa. split.
      * intros Ha. assert (Hao : In a (free_addrs (sm_ns (g_l g)) (sm_chunks (g_l g)))) by (apply Hpa; right; exact Ha).
        apply Hfree in Hao. destruct Hao as [S1 S2]. split; [exact S1|]. intros [<-|Hin]; contradiction.
      * intros [S1 S2]. assert (Hao : In a (free_addrs (sm_ns (g_l g)) (sm_chunks (g_l g)))).
        { apply Hfree. split; [exact S1|]. intros Hin. apply S2. right. exact Hin. }
        apply Hpa in Hao. destruct Hao as [<-|Hao]; [exfalso; apply S2; left; reflexivity|exact Hao].
  - (* deallocate *)
    destruct (existsb (Z.eqb p) (g_live g)) eqn:Hex; [|discriminate].
    apply existsb_exists in Hex. destruct Hex as [x [Hx Ex]]. apply Z.eqb_eq in Ex. subst x.
    destruct (sm_dealloc (g_l g) p) as [l'|] eqn:E; [|discriminate]. inversion Hstep; subst g'; clear Hstep.
    pose proof Hgrid as Hgr. rewrite Forall_forall in Hgr. destruct (Hgr p Hx) as (c & Hc & G1 & G2 & G3).
    assert (Hfrom : c_from (sm_ns (g_l g)) c p = true) by (unfold c_from; apply andb_true_intro; unfold c_end in G2; split; [apply Z.leb_le; lia|apply Z.ltb_lt; lia]).
    assert (Hnot : ~ In p (free_addrs (sm_ns (g_l g)) (sm_chunks (g_l g)))) by (intros Hin; apply Hfree in Hin; destruct Hin as [_ Hin]; contradiction).
    destruct (sm_dealloc_spec (g_l g) p c Hinv Hc Hfrom G3 Hnot) as (l'' & E' & D1 & D2 & D3 & D4 & D5 & D6). rewrite E in E'. inversion E'; subst l''; clear E'.
    rewrite D4 in D3.
    cbn [result_of ss_step ss_l ss_rs]. unfold give_slots. cbn [l_allocs sl]. rewrite (remove_alloc_map p (g_live g) Hx).
    eexists. split; [reflexivity|]. unfold R. cbn [g_l g_live ss_l ss_rs l_kind l_ns l_nfree]. rewrite D4.
    repeat match goal with |- context [ {| l_kind := ?k; l_ns := ?n; l_allocs := ?al; l_nfree := ?f |} ] => change {| l_kind := k; l_ns := n; l_allocs := al; l_nfree := f |} with (sl (sm_ns (g_l g)) (remove_z p (g_live g)) (sm_capacity (g_l g) + 1)) end.
    split; [exact Hg'|]. split; [rewrite D2; reflexivity|].
    assert (Hndl : NoDup (g_live g)) by (eapply nodup_app_l; exact Hnd).
    split.
    + intros a Ha. apply (remove_z_in p (g_live g) a Hndl) in Ha. destruct Ha as [Ha _]. change (slotb rs (sm_ns (g_l g)) a = true). exact (Hlive a Ha).
    + intros a. rewrite in_free_spec, live_slots_sl, slot_of_sl.
      rewrite (remove_z_in p (g_live g) a Hndl). pose proof (perm_in_iff a _ _ D3) as Hpa. cbn [In] in Hpa. rewrite Hpa. split.
      * intros [<-|Ha]; [split; [exact (Hlive p Hx)|intros [_ N]; apply N; reflexivity]|].
        apply Hfree in Ha. destruct Ha as [S1 S2]. split; [exact S1|]. intros [Hin _]. contradiction.
      * intros [S1 S2]. destruct (Z.eq_dec a p) as [->|N]; [left; reflexivity|]. right. apply Hfree. split; [exact S1|].
        intros Hin. apply S2. split; assumption.
Qed.

Theorem run_refines : forall os g0 s0 g, R g0 s0 -> grun g0 os = Some g -> exists s, corun g0 s0 os = Some (g, s) /\ R g s.
Proof.
  induction os as [|o tl IH]; intros g0 s0 g Hr Hrun; cbn [grun corun] in *.
  - inversion Hrun; subst. eauto.
  - destruct (gstep g0 o) as [g1|] eqn:E; [|discriminate].
    destruct (step_refines g0 s0 o g1 Hr E) as (s1 & Es & Hr1). rewrite Es. apply IH; assumption.
Qed.

Lemma empty_R ns : 0 < ns -> R {| g_l := sm_empty ns; g_live := [] |} {| ss_rs := []; ss_l := sl ns [] 0 |}.
Proof.
  intros Hns. unfold R. cbn [g_l g_live ss_l ss_rs sm_empty sm_ns sm_chunks]. split; [apply empty_ginv; exact Hns|]. split; [reflexivity|]. split.
  - intros a [].
  - intros a. cbn. split; [intros []|discriminate].
Qed.

(* the statement for the user of PoolSpec: whatever the small list does over a history of inserts, allocations and releases,
   the Spec accepts it -- each node handed out is a free slot of an inserted range (take_slots), each release gives back a
   node that is out (give_slots) -- and the Spec's free count is the list's capacity *)
Theorem small_list_refines_spec ns os g : 0 < ns -> grun {| g_l := sm_empty ns; g_live := [] |} os = Some g ->
  exists s, corun {| g_l := sm_empty ns; g_live := [] |} {| ss_rs := []; ss_l := sl ns [] 0 |} os = Some (g, s) /\
            l_nfree (ss_l s) = sm_capacity (g_l g) /\ live_slots (ss_l s) = g_live g.
Proof.
  intros Hns Hrun. destruct (run_refines os _ _ g (empty_R ns Hns) Hrun) as (s & Hc & (Hg & Hl & _)).
  exists s. split; [exact Hc|]. rewrite Hl. split; [reflexivity|apply live_slots_sl].
Qed.
