From Coq Require Import List Arith Bool Lia.
From FM Require Import JointExc.
Import ListNotations.

Lemma jcount_app p a b : jcount p (a ++ b) = jcount p a + jcount p b.
Proof. unfold jcount. rewrite filter_app, app_length. reflexivity. Qed.

Definition in_range (from n i : nat) : bool := (from <=? i) && (i <? from + n).
Lemma in_range_spec from n i : in_range from n i = true <-> from <= i < from + n.
Proof. unfold in_range. rewrite andb_true_iff, Nat.leb_le, Nat.ltb_lt. reflexivity. Qed.
Lemma in_range_b from n i : in_range from n i = true \/ in_range from n i = false.
Proof. destruct (in_range from n i); auto. Qed.

Lemma jcount_ids (f : nat -> jxev) (p : nat -> jxev -> bool) i :
  (forall j, p i (f j) = Nat.eqb i j) -> forall n from, jcount (p i) (map f (seq from n)) = if in_range from n i then 1 else 0.
Proof.
  intros Hp. induction n as [|n IH]; intros from.
  - cbn [seq map]. destruct (in_range from 0 i) eqn:E; [apply in_range_spec in E; lia|reflexivity].
  - cbn [seq map]. unfold jcount in *. cbn [filter]. rewrite Hp. specialize (IH (S from)).
    destruct (Nat.eqb_spec i from) as [->|N]; cbn [length]; rewrite IH.
    + destruct (in_range (S from) n from) eqn:E1; [apply in_range_spec in E1; lia|].
      destruct (in_range from (S n) from) eqn:E2; [reflexivity|]. assert (in_range from (S n) from = true) by (apply in_range_spec; lia). congruence.
    + destruct (in_range (S from) n i) eqn:E1; destruct (in_range from (S n) i) eqn:E2; try reflexivity.
      * apply in_range_spec in E1. assert (in_range from (S n) i = true) by (apply in_range_spec; lia). congruence.
      * apply in_range_spec in E2. assert (in_range (S from) n i = true) by (apply in_range_spec; lia). congruence.
Qed.

Lemma jcount_other (f : nat -> jxev) (q : jxev -> bool) : (forall j, q (f j) = false) -> forall l, jcount q (map f l) = 0.
Proof. intros H l. unfold jcount. induction l as [|x l IH]; cbn [map filter]; [reflexivity|]. rewrite H. exact IH. Qed.

Lemma jc_C i n from : jcount (is_jc i) (map JxC (seq from n)) = if in_range from n i then 1 else 0.
Proof. apply (jcount_ids JxC is_jc). intros j. reflexivity. Qed.
Lemma jd_D i n from : jcount (is_jd i) (map JxD (seq from n)) = if in_range from n i then 1 else 0.
Proof. apply (jcount_ids JxD is_jd). intros j. reflexivity. Qed.
Lemma jc_D i l : jcount (is_jc i) (map JxD l) = 0. Proof. apply jcount_other. reflexivity. Qed.
Lemma jd_C i l : jcount (is_jd i) (map JxC l) = 0. Proof. apply jcount_other. reflexivity. Qed.
Lemma ja_C l : jcount is_ja (map JxC l) = 0. Proof. apply jcount_other. reflexivity. Qed.
Lemma ja_D l : jcount is_ja (map JxD l) = 0. Proof. apply jcount_other. reflexivity. Qed.
Lemma jf_C l : jcount is_jf (map JxC l) = 0. Proof. apply jcount_other. reflexivity. Qed.
Lemma jf_D l : jcount is_jf (map JxD l) = 0. Proof. apply jcount_other. reflexivity. Qed.
Lemma jt_C l : jcount is_jt (map JxC l) = 0. Proof. apply jcount_other. reflexivity. Qed.
Lemma jt_D l : jcount is_jt (map JxD l) = 0. Proof. apply jcount_other. reflexivity. Qed.

Ltac jc := repeat (rewrite ?jcount_app, ?jc_C, ?jd_D, ?jc_D, ?jd_C, ?ja_C, ?ja_D, ?jf_C, ?jf_D, ?jt_C, ?jt_D); cbn [jcount filter length is_jc is_jd is_ja is_jf is_jt].
Ltac ranges := repeat match goal with |- context [in_range ?a ?b ?c] => let E := fresh "E" in destruct (in_range a b c) eqn:E; [apply in_range_spec in E|assert (~ (a <= c < a + b)) by (rewrite <- in_range_spec; congruence); clear E] end.

(* every element is constructed at most once and destroyed exactly as often as it was constructed: the elements with ids
   1..built, where built is the number of constructions before the failing one (all of them when nothing fails);
   nodes obtained = nodes given back; the exception appears exactly when a construction was told to fail *)
Theorem jx_case_balanced n fail post i :
  let ev := jx_case n fail post in
  jcount (is_jc i) ev = (if in_range 1 (jx_built n fail post) i then 1 else 0) /\
  jcount (is_jd i) ev = jcount (is_jc i) ev /\
  jcount is_ja ev = jcount is_jf ev /\
  jcount is_jt ev = (match fail with Some k => if k <? jx_total n post then 1 else 0 | None => 0 end).
Proof.
  cbv zeta. unfold jx_case, jx_object, jx_destroy, jx_built, jx_total.
  destruct fail as [k|]; destruct post.
  - (* failure index given, no second object *)
    destruct ((0 <=? k) && (k <? 0 + n)) eqn:H1.
    + apply andb_prop in H1. destruct H1 as [_ H1]. apply Nat.ltb_lt in H1. replace (k - 0) with k by lia. replace (Nat.min k n) with k by lia.
      destruct (Nat.ltb_spec k n); [|lia]. jc. ranges; repeat split; lia.
    + assert (n <= k). { destruct (Nat.leb_spec 0 k); [|lia]. destruct (Nat.ltb_spec k (0 + n)); [discriminate|lia]. }
      replace (Nat.min k n) with n by lia. destruct (Nat.ltb_spec k n); [lia|]. jc. ranges; repeat split; lia.
  - destruct ((0 <=? k) && (k <? 0 + n)) eqn:H1.
    + apply andb_prop in H1. destruct H1 as [_ H1]. apply Nat.ltb_lt in H1. replace (k - 0) with k by lia. replace (Nat.min k (2 * n)) with k by lia.
      destruct (Nat.ltb_spec k (2 * n)); [|lia]. jc. ranges; repeat split; lia.
    + assert (n <= k). { destruct (Nat.leb_spec 0 k); [|lia]. destruct (Nat.ltb_spec k (0 + n)); [discriminate|lia]. }
      destruct ((n <=? k) && (k <? n + n)) eqn:H2.
      * apply andb_prop in H2. destruct H2 as [_ H2]. apply Nat.ltb_lt in H2. replace (Nat.min k (2 * n)) with k by lia.
        destruct (Nat.ltb_spec k (2 * n)); [|lia]. jc. ranges; repeat split; lia.
      * assert (2 * n <= k). { destruct (Nat.leb_spec n k); [|lia]. destruct (Nat.ltb_spec k (n + n)); [discriminate|lia]. }
        replace (Nat.min k (2 * n)) with (2 * n) by lia. destruct (Nat.ltb_spec k (2 * n)); [lia|]. jc. ranges; repeat split; lia.
  - jc. ranges; repeat split; lia.
  - jc. ranges; repeat split; lia.
Qed.

(* the first event obtains a node, the last event gives one back: nothing is constructed before memory is there, and
   nothing is left behind whether or not a constructor threw *)
Lemma ends_with_free (a : list jxev) n s : exists m, a ++ jx_destroy s n = m ++ [JxFree].
Proof. unfold jx_destroy. exists (a ++ map JxD (seq (S s) n)). rewrite app_assoc. reflexivity. Qed.

Theorem jx_case_brackets n fail post : exists mid, jx_case n fail post = JxAlloc :: mid ++ [JxFree].
Proof.
  unfold jx_case.
  assert (Hobj : forall s, (exists m, fst (jx_object s n fail) = JxAlloc :: m ++ [JxFree] /\ snd (jx_object s n fail) = false) \/
                           (exists m, fst (jx_object s n fail) = JxAlloc :: m /\ snd (jx_object s n fail) = true)).
  { intros s. unfold jx_object. destruct fail as [k|].
    - destruct ((s <=? k) && (k <? s + n)).
      + left. exists (map JxC (seq (S s) (k - s)) ++ JxT :: map JxD (seq (S s) (k - s))). cbn [fst snd app]. split; [|reflexivity]. f_equal. rewrite <- app_assoc. reflexivity.
      + right. eexists. cbn [fst snd app]. split; reflexivity.
    - right. eexists. cbn [fst snd app]. split; reflexivity. }
  destruct (jx_object 0 n fail) as [e1 ok1] eqn:E1. pose proof (Hobj 0) as H0. rewrite E1 in H0. cbn [fst snd] in H0.
  destruct H0 as [[m [-> ->]]|[m [-> ->]]]; [eauto|].
  destruct post.
  - destruct (ends_with_free m n 0) as [m' Hm]. exists m'. cbn [app]. f_equal. exact Hm.
  - destruct (jx_object n n fail) as [e2 ok2] eqn:E2. destruct ok2.
    + destruct (ends_with_free (m ++ e2 ++ jx_destroy n n) n 0) as [m' Hm]. exists m'. cbn [app]. f_equal. rewrite <- Hm. rewrite <- !app_assoc. reflexivity.
    + destruct (ends_with_free (m ++ e2) n 0) as [m' Hm]. exists m'. cbn [app]. f_equal. rewrite <- Hm. rewrite <- !app_assoc. reflexivity.
Qed.

(* ---- C11: the life cycle of an object whose constructors do not throw ---- *)
(* every element of the member array (and of the array of the clone / of the object moved into another allocator) is
   constructed exactly once and destroyed exactly once, no other element event exists, every node obtained is given back,
   and the events are bracketed by the first node's allocation and a release *)
Theorem jx_success_lifecycle n post i :
  let ev := jx_case n None post in
  jcount (is_jc i) ev = (if in_range 1 (jx_total n post) i then 1 else 0) /\
  jcount (is_jd i) ev = jcount (is_jc i) ev /\
  jcount is_ja ev = jcount is_jf ev /\
  jcount is_jt ev = 0 /\
  exists mid, ev = JxAlloc :: mid ++ [JxFree].
Proof.
  cbv zeta. destruct (jx_case_balanced n None post i) as (H1 & H2 & H3 & H4). cbv zeta in *.
  unfold jx_built in H1. repeat split; try assumption. apply jx_case_brackets.
Qed.

(* the order: the elements are destroyed first to last while the node is still there; the node goes back afterwards; a
   clone is built after the original is complete, and (reset in reverse order of creation) is gone before the original *)
Theorem jx_success_shape n :
  jx_case n None PNone = [JxAlloc] ++ map JxC (seq 1 n) ++ map JxD (seq 1 n) ++ [JxFree] /\
  jx_case n None PCopy = [JxAlloc] ++ map JxC (seq 1 n) ++ [JxAlloc] ++ map JxC (seq (S n) n) ++ map JxD (seq (S n) n) ++ [JxFree]
                          ++ map JxD (seq 1 n) ++ [JxFree].
Proof.
  unfold jx_case, jx_object, jx_destroy. split; cbn [fst snd]; rewrite <- ?app_assoc; reflexivity.
Qed.

(* in a successful life cycle no element is touched after its node has been given back: behind the last release there is
   nothing, and between the two releases of the copy flow only elements of the object that still has its node *)
Theorem jx_nothing_after_last_free n post : exists before, jx_case n None post = before ++ [JxFree].
Proof.
  destruct (jx_case_brackets n None post) as (mid & E). exists (JxAlloc :: mid). rewrite E. reflexivity.
Qed.
