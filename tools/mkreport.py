#!/usr/bin/env python3
"""splice work/report.md (chapter R) into DESIGN.md, with the seeded-change table generated from seeded/*/meta.json"""
import json, os, re
V = os.path.dirname(os.path.dirname(os.path.abspath(__file__)))
rows = ['| seed | property | change (files) | needs to manifest | detected by | concrete input |', '|------|----------|----------------|-------------------|-------------|----------------|']
for sid in sorted(os.listdir(os.path.join(V, 'seeded'))):
    mp = os.path.join(V, 'seeded', sid, 'meta.json')
    if not os.path.exists(mp):
        continue
    m = json.load(open(mp))
    readme = open(os.path.join(V, 'seeded', sid, 'README.md')).read()
    title = readme.strip().split('\n')[0].lstrip('# ').strip()
    title = re.sub(r'^C\d\d\s*(change)?\s*[ab/]*\s*[:—-]*\s*', '', title, flags=re.I)[:110]
    det = m.get('detection', {}) if isinstance(m.get('detection'), dict) else {}
    how = (det.get('detail', '') or '').split('fails on the implementation')[-1].strip(' :')[:120]
    rows.append('| %s | %s | %s (%s) | see seeded/%s/README.md | %s | %s |' % (
        sid, m['property'], title.replace('|', '/'), ', '.join(os.path.basename(f) for f in m.get('files_changed', [])), sid,
        ', '.join(m.get('detected_by') or ['**none**']), ('yes: ' + how.replace('|', '/')) if det.get('concrete_input') else 'no (broken obligation named)'))
table = '\n'.join(rows)
rep = open(os.path.join(V, 'docs', 'report_src.md')).read().replace('SEEDTABLE', table)
d = open(os.path.join(V, 'DESIGN.md')).read()
begin, end = '<!-- BEGIN:report -->', '<!-- END:report -->'
block = begin + '\n' + rep + '\n' + end
if begin in d:
    d = d[:d.index(begin)] + block + d[d.index(end) + len(end):]
else:
    marker = '---------------------------------------------------------------------------------------------------\n\n## 0. One-page summary'
    d = d.replace(marker, block + '\n\n' + marker, 1)
open(os.path.join(V, 'DESIGN.md'), 'w').write(d)
print('report spliced; %d seeds' % (len(rows) - 2))
