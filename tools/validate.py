#!/usr/bin/env python3-vt
import json, jsonschema, glob, sys
jsonschema.validate(json.load(open('/verif/MANIFEST.json')), json.load(open('/root/.vp/MANIFEST.schema.json')))
es = json.load(open('/root/.vp/EVIDENCE.schema.json'))
m = json.load(open('/verif/MANIFEST.json'))
bad = 0
for c in m['checks']:
    try:
        e = json.load(open(c['evidence_file']))
        jsonschema.validate(e, es)
        assert e['level'] == c['level_claimed']['category'], 'level mismatch'
    except Exception as ex:
        bad += 1; print('INVALID', c['property_id'], str(ex)[:200])
print('manifest valid; %d checks; %d invalid evidence' % (len(m['checks']), bad))
sys.exit(1 if bad else 0)
