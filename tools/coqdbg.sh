#!/bin/bash
# usage: coqdbg.sh File.v LINE  -- show the goals just before LINE
f=$1; n=$2
sed "${n}s/.*/  Show. Abort./;$((n+1)),\$d" /verif/coq/$f > /verif/work/Dbg.v
cd /verif/coq && timeout 300 coqc -Q . FM /verif/work/Dbg.v 2>&1 | head -${3:-60}
