#!/usr/bin/env python3
"""move confirmed sub-agent changes from seeded/_incoming/<prop>/<x>/ to seeded/<prop>-<x>/ with a meta.json"""
import json, os, re, shutil, sys
V = os.path.dirname(os.path.dirname(os.path.abspath(__file__)))
inc = os.path.join(V, 'seeded', '_incoming')
for prop in sorted(os.listdir(inc)):
    for x in sorted(os.listdir(os.path.join(inc, prop))):
        src = os.path.join(inc, prop, x)
        cj = os.path.join(src, 'confirm.json')
        if not os.path.exists(cj):
            print('not confirmed yet:', src); continue
        conf = json.load(open(cj))
        ok = conf.get('applies') and conf.get('builds_with_patch') and conf.get('suite_with_patch', '').startswith('100%') and conf.get('demo_with_patch') != 'exit=0' and conf.get('demo_without_patch') == 'exit=0'
        if not ok:
            print('NOT adopting (confirmation failed):', src, conf); continue
        dst = os.path.join(V, 'seeded', '%s-%s' % (prop, x))
        os.makedirs(dst, exist_ok=True)
        patch = 'patch.rebased.diff' if os.path.exists(os.path.join(src, 'patch.rebased.diff')) else 'patch.diff'
        shutil.copy(os.path.join(src, patch), os.path.join(dst, 'patch.diff'))
        shutil.copy(os.path.join(src, 'demo.cpp'), os.path.join(dst, 'demo.cpp'))
        readme = open(os.path.join(src, 'README.md')).read()
        shutil.copy(os.path.join(src, 'README.md'), os.path.join(dst, 'README.md'))
        files = sorted(set(re.findall(r'^\+\+\+ b/(\S+)', open(os.path.join(dst, 'patch.diff')).read(), re.M)))
        meta = dict(
            id='%s-%s' % (prop, x), property=prop, origin='fresh sub-agent given only the property text and its own scratch worktree',
            files_changed=files,
            description=' '.join(readme.split('\n')[0:1]).lstrip('# ').strip(),
            needs_to_manifest='see README.md (section on what is needed to manifest); demo configuration: ' + conf.get('demo_config', 'default'),
            confirmed=dict(by='tools/confirm_seed.sh in a scratch worktree of /repo under /tmp (removed afterwards)',
                           repo_head=conf.get('repo_head'), patch_applies=True, library_builds=True,
                           pinned_suite_with_patch=conf.get('suite_with_patch'), demo_with_patch=conf.get('demo_with_patch'),
                           demo_without_patch=conf.get('demo_without_patch'), demo_config=conf.get('demo_config')),
            ran=['tools/confirm_seed.sh seeded/_incoming/%s/%s%s' % (prop, x, ' f8' if conf.get('demo_config') == 'f8' else ''),
                 'tools/seedtest.sh /verif/seeded/%s-%s/patch.diff %s   (git -C /repo apply; ./check %s; git -C /repo checkout -- .)' % (prop, x, prop, prop)],
            detected_by=[prop], detection='filled in by tools/seedmatrix.py')
        old = os.path.join(dst, 'meta.json')
        if os.path.exists(old):
            o = json.load(open(old))
            for k in ('detected_by', 'detection', 'matrix'):
                if k in o and o[k] and 'filled in' not in str(o[k]):
                    meta[k] = o[k]
        json.dump(meta, open(old, 'w'), indent=1)
        print('adopted', dst)
