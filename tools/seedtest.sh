#!/bin/bash
# usage: seedtest.sh <patch.diff> <check id>...   -- apply a seeded change to /repo, run the checks, undo it
p=$1; shift
git -C /repo apply "$p" || { echo "APPLY FAILED $p"; exit 2; }
for c in "$@"; do
  out=$(cd /verif && ./check $c 2>&1 | grep -E "^VIOLATION|^OK|^DETAIL" | cut -c1-240 | head -3)
  echo "[$c] $out"
done
git -C /repo checkout -- .
git -C /repo status --short | grep -v _build
# refresh the evidence files on the unchanged tree
for c in "$@"; do (cd /verif && ./check $c > /dev/null 2>&1); done
