#!/bin/bash
# usage: confirm_seed.sh <dir with patch.diff + demo.cpp> [f8]   -- confirm a seeded change in a scratch worktree:
#   with the patch: library builds, pinned test suite passes, demo fails;  without it: demo passes.
# Writes <dir>/confirm.json.  The scratch worktree (and its build output) is removed at the end.
d=$(readlink -f "$1"); cfg=${2:-default}
patch=$d/patch.diff; [ -f $d/patch.rebased.diff ] && patch=$d/patch.rebased.diff
wt=/tmp/wt_confirm_$$
git -C /repo worktree add --detach $wt HEAD >/dev/null 2>&1 || exit 2
trap 'git -C /repo worktree remove --force $wt >/dev/null 2>&1' EXIT
CM="-G Ninja -DCMAKE_BUILD_TYPE=RelWithDebInfo -DFETCHCONTENT_TRY_FIND_PACKAGE_MODE=ALWAYS"
F8="-G Ninja -DCMAKE_BUILD_TYPE= -DCMAKE_CXX_FLAGS=-O1 -DFETCHCONTENT_TRY_FIND_PACKAGE_MODE=ALWAYS -DFOONATHAN_MEMORY_DEBUG_FILL=ON -DFOONATHAN_MEMORY_DEBUG_FENCE=8 -DFOONATHAN_MEMORY_DEBUG_LEAK_CHECK=ON -DFOONATHAN_MEMORY_DEBUG_POINTER_CHECK=ON -DFOONATHAN_MEMORY_BUILD_TESTS=OFF -DFOONATHAN_MEMORY_BUILD_EXAMPLES=OFF -DFOONATHAN_MEMORY_BUILD_TOOLS=OFF"
DD="-G Ninja -DCMAKE_BUILD_TYPE= -DCMAKE_CXX_FLAGS=-O1 -DFETCHCONTENT_TRY_FIND_PACKAGE_MODE=ALWAYS -DFOONATHAN_MEMORY_DEBUG_FILL=ON -DFOONATHAN_MEMORY_DEBUG_LEAK_CHECK=ON -DFOONATHAN_MEMORY_DEBUG_POINTER_CHECK=ON -DFOONATHAN_MEMORY_DEBUG_DOUBLE_DEALLOC_CHECK=ON -DFOONATHAN_MEMORY_BUILD_TESTS=OFF -DFOONATHAN_MEMORY_BUILD_EXAMPLES=OFF -DFOONATHAN_MEMORY_BUILD_TOOLS=OFF"
REL="-G Ninja -DCMAKE_BUILD_TYPE=Release -DFETCHCONTENT_TRY_FIND_PACKAGE_MODE=ALWAYS -DFOONATHAN_MEMORY_BUILD_TESTS=OFF -DFOONATHAN_MEMORY_BUILD_EXAMPLES=OFF -DFOONATHAN_MEMORY_BUILD_TOOLS=OFF"
build() {
  cmake -S $wt -B $wt/_build $CM >/dev/null 2>&1 && cmake --build $wt/_build -j8 >/dev/null 2>&1 || return 1
  if [ $cfg = f8 ]; then cmake -S $wt -B $wt/_build_f8 $F8 >/dev/null 2>&1 && cmake --build $wt/_build_f8 -j8 >/dev/null 2>&1 || return 1; fi
  if [ $cfg = dd ]; then cmake -S $wt -B $wt/_build_dd $DD >/dev/null 2>&1 && cmake --build $wt/_build_dd -j8 >/dev/null 2>&1 || return 1; fi
  if [ $cfg = rel ]; then cmake -S $wt -B $wt/_build_rel $REL >/dev/null 2>&1 && cmake --build $wt/_build_rel -j8 >/dev/null 2>&1 || return 1; fi
}
demo() {
  b=$wt/_build; [ $cfg = f8 ] && b=$wt/_build_f8; [ $cfg = dd ] && b=$wt/_build_dd; [ $cfg = rel ] && b=$wt/_build_rel
  g++ -std=c++17 -O1 -g -I $wt/include -I $b/src $d/demo.cpp $b/src/libfoonathan_memory-0.7.4*.a -pthread -o $wt/demo_bin >/dev/null 2>$wt/demo_cc.log || { echo "compile-failed"; return; }
  (cd $wt && timeout 120 ./demo_bin >/dev/null 2>&1); echo "exit=$?"
}
git -C $wt apply $patch || { echo "{\"applies\": false}" > $d/confirm.json; exit 1; }
build; built=$?
tests=$(ctest --test-dir $wt/_build -j8 --timeout 900 2>&1 | grep -E "tests passed|tests failed" | head -1)
with=$(demo)
git -C $wt checkout -- . ; rm -rf $wt/_build $wt/_build_f8 $wt/_build_dd $wt/_build_rel; build
without=$(demo)
printf '{"applies": true, "builds_with_patch": %s, "suite_with_patch": "%s", "demo_with_patch": "%s", "demo_without_patch": "%s", "demo_config": "%s", "repo_head": "%s"}\n' \
  $([ $built = 0 ] && echo true || echo false) "$tests" "$with" "$without" "$cfg" "$(git -C /repo rev-parse --short HEAD)" > $d/confirm.json
cat $d/confirm.json
