#!/usr/bin/env python3
"""for every kept seeded change: apply it to /repo, run the check of its property (and any extra ids given),
undo it, and record what the check said in seeded/<id>/meta.json.  usage: seedmatrix.py [seed ids...]"""
import json, os, subprocess, sys
V = os.path.dirname(os.path.dirname(os.path.abspath(__file__)))
ids = sys.argv[1:] or sorted(d for d in os.listdir(os.path.join(V, 'seeded')) if os.path.exists(os.path.join(V, 'seeded', d, 'meta.json')))
missed = []
for sid in ids:
    d = os.path.join(V, 'seeded', sid)
    meta = json.load(open(os.path.join(d, 'meta.json')))
    prop = meta['property']
    if subprocess.run(['git', '-C', '/repo', 'apply', os.path.join(d, 'patch.diff')]).returncode != 0:
        print(sid, 'PATCH DOES NOT APPLY'); missed.append(sid); continue
    try:
        out = subprocess.run(['./check', prop], cwd=V, stdout=subprocess.PIPE, stderr=subprocess.STDOUT, text=True).stdout
    finally:
        subprocess.run(['git', '-C', '/repo', 'checkout', '--', '.'])
    viol = [l for l in out.split('\n') if l.startswith('VIOLATION')]
    det = [l for l in out.split('\n') if l.startswith('DETAIL')]
    meta['detected_by'] = [prop] if viol else []
    meta['detection'] = dict(check=prop, tier='quick', seed=int(os.environ.get('VERIF_SEED', '1') or 1),
                             concrete_input=bool(viol) and 'no-failing-input-found' not in viol[0],
                             detail=(det[0][:400] if det else ''), violation_line=(viol[0].split(' replay=')[0] + (' no-failing-input-found' if viol and 'no-failing-input-found' in viol[0] else '') if viol else 'NOT DETECTED'))
    json.dump(meta, open(os.path.join(d, 'meta.json'), 'w'), indent=1)
    print(sid, 'detected' if viol else 'MISSED', '|', (det[0][:150] if det else ''))
    if not viol:
        missed.append(sid)
# refresh the evidence on the unchanged tree
for prop in sorted(set(json.load(open(os.path.join(V, 'seeded', s, 'meta.json')))['property'] for s in ids)):
    subprocess.run(['./check', prop], cwd=V, stdout=subprocess.DEVNULL, stderr=subprocess.DEVNULL)
print('missed:', missed)
sys.exit(1 if missed else 0)
