#!/usr/bin/env python3
"""setup: build everything that does not depend on per-run inputs, from files on disk only (offline)."""
import sys, os, time, glob
sys.path.insert(0, os.path.dirname(os.path.dirname(os.path.abspath(__file__))))
from vlib import build, coqrun

t = time.time()
errs, _ = coqrun.regen()
for e in errs:
    print('translator:', e)
coqrun.ensure_makefile()
vos = sorted(os.path.basename(p) + 'o' for p in glob.glob(os.path.join(coqrun.COQ, '*.v')))
ok, out = coqrun.make(vos, timeout=3000, keep_going=True)
print(out[-3000:] if not ok else 'coq: %d files built' % len(vos))
try:
    print('replay:', coqrun.build_replay())
except build.BuildError as e:
    print('replay build failed:', str(e)[-2000:]); ok = False
for cfg in ('base', 'rel', 'chk', 'dbg8', 'dbg16', 'fen8'):
    try:
        build.build_lib(cfg)
    except build.BuildError as e:
        print('lib', cfg, 'failed:', str(e)[-500:])
print('setup done in %.1fs' % (time.time() - t))
sys.exit(0 if ok else 1)
