#!/usr/bin/env python3
"""writes /verif/MANIFEST.json from the table below (kept in one place so it stays valid)"""
import json, os
V = os.path.dirname(os.path.dirname(os.path.abspath(__file__)))

CLAIMED = {
 'C19': dict(
    text='Every helper of the arithmetic kernel is translated from the C++ source into Gallina on every run (clang AST -> N with explicit 64-bit wrap) and 14 theorems are re-checked against that fresh translation: least-multiple rounding under the stated no-wrap guard (and the wrapped value characterised outside it), align_offset value/aligns/least, is_aligned, is_valid_alignment iff power of two, alignment_for = min(2^v2(s),16), ilog2 = floor log2, ilog2_ceil = ceil log2, identity and log2 bucket selection. All 64-bit inputs, all 64 alignments: no bound. Proof is the right level because the property is a pure for-all-inputs statement.',
    note='Trusted: Coq kernel; the translator (cross-checked each run by evaluating extracted vs compiled functions on >2*10^5 boundary inputs, bit for bit); __builtin_clzll x modelled as 64 - N.size x; free_list_array::get clamp is hand-modelled (template member) and tied by the complete bucket enumeration.',
    technique='Coq proof over translator-regenerated Gallina + differential validation of the translator', ref='5 C19'),
}

CLAIMED['C07'] = dict(
    text='Executable model of iteration_allocator<N> (Iteration.v) with theorems for every N>=1, every block size, every operation sequence: the N regions tile the block exactly; the invariant holds in every reachable state; each served request is aligned, inside the current region and disjoint from everything live; an allocation stays live across any operations containing fewer than N switches and no allocator write event touches it; a switch restores the full region capacity and never takes the crashing path; a failed request changes nothing. The region formula of the model is proved equal to block_start as translated from the source on this run. The constructor found at the pinned commit is refuted in Coq (N=3, size=1025) and was repaired (fix commit).',
    note='Trusted: Coq kernel; hand-written Exec model tied to the real allocator by lock-step replay (every address, outcome, iteration index and capacity_left(i)) for N=1..5 in configurations base/rel/dbg8(/dbg16), block sizes covering every residue mod N; sizes are unbounded Z in the model (requests below 2^63; wrap-around of size_t in the bounds check is not modelled).',
    technique='Coq invariant proof over an executable state machine + lock-step correspondence via extracted OCaml', ref='5 C07')

CLAIMED['C06'] = dict(
    text='Exec model of memory_stack over a cached arena (Stack.v). Theorems for every history of allocations (any size/alignment/fence), block growth, nested markers and unwinds and shrink_to_fit: unwinding to a marker restores the block stack, the top and hence capacity_left of the moment it was taken, is never reported and issues no upstream call; dropped blocks go to the cache in the order that brings them back first; replay equality (the same requests after the unwind give the same outcomes and addresses, served from the cache alone); valid markers are totally ordered consistently with the order they were taken; only shrink_to_fit releases blocks.',
    note='Trusted: Coq kernel; hand-written Exec model tied to memory_stack<growing|fixed> by lock-step replay of every address, marker field, capacity_left/next_capacity and upstream call in 3-4 debug configurations; the log-level oracle re-checks capacity restoration, replay blocks and content of older allocations on the real code. Not proved in Coq yet: that the write events of an unwind avoid older allocations (checked on the implementation by content patterns).',
    technique='Coq invariant proofs over an executable state machine + lock-step correspondence via extracted OCaml', ref='5 C06')
CLAIMED['C05'] = dict(
    text='Exec models of memory_arena (cached/uncached, any block source) and memory_stack. Theorems for every operation history, including a failing block source at any call: the upstream calls of every operation are a LIFO step on the blocks held (acquire appends, release returns the newest block with the same address and size); any history followed by destruction returns every block exactly once in reverse order of acquisition; cached blocks are reused before the source is asked; a source failure leaves the arena unchanged.',
    note='Trusted: Coq kernel; Exec models tied by lock-step replay to memory_arena over growing, fixed, static and virtual block sources and to memory_stack; pools, collections and iteration allocators are covered by the bracket oracle on their upstream logs (with the k-th upstream call failing, moves and move assignments) and by the stale-write detector of the instrumented upstream, not by a theorem about their own code paths.',
    technique='Coq proofs over executable arena/stack models + lock-step correspondence + upstream-log bracket oracle', ref='5 C05')

CLAIMED['C01'] = dict(
    text='Spec-layer model of the free lists behind memory_pool and memory_pool_collection (PoolSpec.v, all three list types, any number of buckets) with an invariant proved for every accepted history: ranges handed to the lists are pairwise disjoint and inside the usable part of held upstream blocks; nodes handed out are nodes of those ranges, never handed out twice. Consequences proved: any two live nodes (same or different bucket) are disjoint; every live node lies inside a held block; node geometry lemmas for intrusive and chunked small lists for every node size. Exec models of memory_stack and iteration_allocator<N>: each served request is inside the current block/region and disjoint from everything live; iteration write events avoid live allocations.',
    note='Trusted: Coq kernel; models hand-written. Tie: pool/collection logs (results, ranges reported by the guarded insert hook, upstream calls) replayed through the extracted acceptance function; stacks and iteration allocators in Exec lock-step; content patterns in every live allocation verified at release and in sweeps; memory returned upstream checked for later writes. Not modelled here: static_allocator, temporary_allocator and the low-level allocators (bump model and fence shift are covered under C11/C14/C17), pools over static/virtual sources.',
    technique='Coq invariant proofs over Spec/Exec models + trace acceptance / lock-step via extracted OCaml', ref='5 C01')
CLAIMED['C02'] = dict(
    text='Theorems: the bump allocator (fixed_memory_stack::allocate, behind stacks, iteration regions, static storage, joint memory, collections) returns a non-null pointer aligned to any positive alignment asked for, after the front fence, with size + back fence inside the memory given, and its padding is the align_offset translated from the source; pool/collection requests are served by ceil(bytes/node size) consecutive live nodes covering the bytes; every node of every list (first or grown block, first or later chunk) is aligned to alignment_for(node size); memory_stack results are aligned and inside a held block also right after growth.',
    note='Trusted: Coq kernel; hand-written models tied by replay (see C01). The harness writes and reads back all count*size bytes of every allocation; alignment of each result is re-checked against the request on the log. aligned_allocator and the low-level 2*max_alignment shift are exercised under C09/C17, not proved here.',
    technique='Coq proofs (layout arithmetic + invariants) + trace acceptance / lock-step', ref='5 C02')
CLAIMED['C03'] = dict(
    text='Theorems: in every accepted pool/collection step a throwing function never yields null, a try_ function never throws and never reaches the upstream source; a refused request (with the upstream failing or not) keeps every allocation and takes no capacity away, and the invariant (hence C01/C02 for later requests) holds after any outcome; memory_stack::allocate ends in a pointer or one of three exceptions, never null, try_allocate makes no upstream call and null changes nothing; a failing block source leaves an arena unchanged; an iteration allocator refusal changes nothing.',
    note='Trusted: Coq kernel; models hand-written. Tie: fault injection (k-th upstream call fails) and exhaustion of fixed sources through throwing and composable interfaces, histories continue after failures; exception class, handler invocation count and null/throw discipline are compared on every log line; requests around next_capacity in fence configurations. Exception classification (bad_allocation_size vs out_of_memory family) is checked on the implementation, not derived in Coq.',
    technique='Coq proofs over Spec/Exec models + fault-injection replay', ref='5 C03')
CLAIMED['C04'] = dict(
    text='Theorems for every accepted history of node/array requests and releases on any list of a pool or collection: the free count equals nodes linked minus nodes handed out; each operation moves it by exactly ceil(bytes/node size); after any history, once everything taken from a list has been released, its capacity is at least what it was (so repeating allocate/release cycles never grows the pool); a single-node request triggers no growth (no upstream call, no new range) while the list holds a node.',
    note='Trusted: Coq kernel; Spec model tied by replaying implementation logs with capacity_left / pool_capacity_left / next_capacity compared after every operation, in configurations with unordered and ordered node lists. The ordered list position search (find_pos) is not re-proved in this round (prototype proof exists in DESIGN Appendix A).',
    technique='Coq invariant proof (counting) + trace acceptance with exact capacity comparison', ref='5 C04')
CLAIMED['C18'] = dict(
    text='Theorems over the formulas translated from the source on this run: min_block_size(ns, n) makes the node and array lists link exactly n nodes and the small list at least n, for every node size and count (chunking, inter-chunk padding and the unsigned-char counter included; the formula of the pinned commit is refuted at (1, 510)); arena/stack min_block_size leaves exactly the requested bytes; pool capacity figures are exact and move by exactly the nodes of each operation; a stack allocation consumes exactly fence + padding + size + fence.',
    note='Trusted: Coq kernel; translator; the small-list carving model is hand-written and tied by enumerating real lists/pools built from min_block_size (thorough: the complete domain 1..512 x 1..2000 x 3 list types) and comparing node counts; counters compared in lock-step on histories. "Reported maxima are upper bounds" is checked on logs, not proved.',
    technique='Coq arithmetic proofs over translator-regenerated formulas + exhaustive enumeration as model validation', ref='5 C18')

CLAIMED['C17'] = dict(
    text='Byte-level executable model of debug_fill, debug_is_filled, debug_fill_new and debug_fill_free and of the [fence | node | fence] layout. Theorems for every memory content, node size and fence size: debug_is_filled returns exactly the first differing byte; release reports the front fence then the back fence, each with the address of its first byte off the pattern, and a fence still carrying the pattern is not reported; hence every corruption of any fence byte with any other value is reported and writes confined to the node never are; fill_new / fill_free patterns are exact and touch nothing else.',
    note='Trusted: Coq kernel; hand-written byte model tied by replaying corruption experiments (every byte offset of both fences, many values, multi-byte corruptions inside one word, in-bounds write sets) on heap, malloc, new and virtual memory allocators in dbg8/dbg16/fen8 (and in-bounds only in base): the sequence of reported addresses must equal the model. Fill patterns of the other allocators are checked on the implementation (new-memory pattern on every result; freed pattern on released pool nodes outside the link bytes), not proved per allocator.',
    technique='Coq proofs over a byte-level model + experiment replay', ref='5 C17')

CLAIMED['C15'] = dict(
    text='Model of object_leak_checker as used by memory_pool, memory_pool_collection and memory_stack. Theorem for every history of traits-level allocations and releases (any byte amounts) with move constructions and move assignments at arbitrary points: destruction calls the handler exactly once with the exact net amount iff it is non-zero, a move construction reports nothing and carries the count along, a move assignment reports exactly the outstanding amount of the allocator it overwrites, a balanced history is silent, nothing is reported after destruction.',
    note='Trusted: Coq kernel; small hand-written model tied by replaying histories with a capturing leak handler (node and array requests whose element size differs from the node size, arbitrary unreleased subsets, moves onto fresh and leaking targets) on pools, collections and stacks in base/dbg8; the stateless low-level allocators are run in child processes and must report the process-wide net (actual sizes, fences included) exactly once during static destruction -- checked on the implementation, the global counter is not modelled separately.',
    technique='Coq proof over a counter model + replay with captured handler', ref='5 C15')

CLAIMED['C11'] = dict(
    text='Exec model of the joint stack behind joint_allocator and joint_array (Joint.v). Theorems for every additional size (0 and exact fit included), every sequence of requests, range-constructor bumps and last-allocation releases: pieces lie behind the object inside its single block, stacked one behind the other (hence disjoint) and aligned as asked; a request throws exactly when padding + size exceed what is left and then changes nothing; the release parameters equal the allocation parameters (address, sizeof T + additional size) after any sequence of joint operations; clone_joint asks for sizeof T + the memory in use, which is within the capacity.',
    note='Trusted: Coq kernel; hand-written model tied in lock-step to a joint type with three member joint_arrays (char, 8-byte, 16-byte-aligned elements; size/value/initializer-list/range constructors) plus raw joint_allocator requests of arbitrary size/alignment: offsets, capacity_left, leaf request/release parameters and clone request size must be equal; additional sizes swept around what the layout needs; reset, = nullptr, clone, move-with-allocator, swap. That the object is destroyed exactly once is counted by the harness (and under C20), not proved.',
    technique='Coq proofs over an executable bump model + lock-step correspondence', ref='5 C11')
CLAIMED['C20'] = dict(
    text='Control-flow model of the array-building helpers as event lists (ExcSafety.v). Theorems for every length n and every failing index k < n: exactly elements 0..k-1 are constructed and each is destroyed once, nothing else is constructed or destroyed, the memory is obtained once and released once, the exception is the last event; with no failure each element is constructed once and destroyed once at release.',
    note='Trusted: Coq kernel; the model is a hand-written rendering of the helpers\' try/catch and guard-object structure, tied by comparing, event by event, the log of the real allocate_unique<T>, allocate_unique<T[]> (plain and any_allocator) and allocate_shared on an instrumented leaf and on real pools/stacks for the complete range lengths 0..16 (thorough 0..64) x every failing index; joint_ptr creation, the joint_array constructors, clone_joint and move-with-allocator are checked by counters on the implementation (constructed = destroyed, none twice, memory balanced with matching parameters, exception propagated, allocator usable) rather than by event-list equality.',
    technique='Coq proof over an event-list model + exhaustive enumeration of (length, failing index) on the real helpers', ref='5 C20')

CLAIMED['C13'] = dict(
    text='(1) Lock table: the call shapes of every member of allocator_storage and of the locking proxy are regenerated from the class-template patterns on every run, and a computed obligation states that all eleven forwarding members (throwing, composable, size queries) declare their lock_guard before the forwarded call, nothing else forwards, lock() hands allocator and mutex to a proxy that locks on construction, unlocks on destruction iff it still owns and is emptied by a move. (2) Interleaving theorem: for any number of threads, any programs built from locking members and proxies with any number of passes, and any schedule, at most one thread is inside the wrapped allocator and it owns the mutex; with a single non-locking member the property is refuted.',
    note='Partial w.r.t. the hardware memory model. Trusted: Coq kernel; the shape extractor (vlib/shapes.py over clang 14 JSON AST); std::mutex correctness and sequentially consistent interleaving of the model\'s atomic steps are assumed, not proved. Tie: instrumented mutex + instrumented wrapped allocator under 2..8 (16) real threads exercising every forwarding member and the proxy (also moved into a longer-lived object): entries must be by the owner and never overlap, and the recorded event trace must be a run of the model; a stateless allocator under the same threads must take no lock and the mutex selection traits are checked.',
    technique='Coq proof over an interleaving model + computed obligation on a source-generated lock table + instrumented real threads', ref='5 C13')

NOT_YET = {}

checks = []
for pid in sorted(CLAIMED):
    c = CLAIMED[pid]
    checks.append(dict(
        property_id=pid, quick_cmd='./check %s --tier quick' % pid, thorough_cmd='./check %s --tier thorough' % pid,
        evidence_file='/verif/evidence/%s.json' % pid, replay_cmd_template='./check %s --replay {path}' % pid,
        engine='rocq-proof', level_claimed=dict(category=c.get('category', 'proof'), text=c['text'], design_ref='DESIGN.md section ' + c['ref']),
        level_note=c['note'], technique=c['technique']))

na = []
for i in range(1, 21):
    pid = 'C%02d' % i
    if pid not in CLAIMED:
        na.append(dict(property_id=pid, reason=NOT_YET.get(pid, 'not claimed yet: model, theorems and correspondence for this property are still being built in this round (see DESIGN.md section 9, build order); no check is registered until it passes on the unchanged tree')))

m = dict(version=1, setup_cmd='make -C /verif setup',
         hooks=dict(guard='FOONATHAN_MEMORY_VERIF', enable='every harness/library build by vlib/build.py passes -DFOONATHAN_MEMORY_VERIF=1',
                    baseline_off_cmd='cmake --build /repo/_build -j16 && ctest --test-dir /repo/_build -j8 --timeout 900',
                    source_commits=[], add_only=True),
         engines=[dict(name='rocq-proof', path='/verif/check', serves_properties=sorted(CLAIMED),
                       kind_free_text='Coq 8.16 theorems over translator-regenerated and hand-written executable models; correspondence by extracted OCaml replay of C++ harness logs')],
         checks=checks, not_applicable=na,
         notes='See DESIGN.md. Checks rebuild the library and harnesses from /repo working tree (content-hash cache under /verif/.cache).')
json.dump(m, open(os.path.join(V, 'MANIFEST.json'), 'w'), indent=1)
print('claimed', sorted(CLAIMED))
