#!/usr/bin/env python3
"""writes /verif/MANIFEST.json from the table below (kept in one place so it stays valid)"""
import json, os
V = os.path.dirname(os.path.dirname(os.path.abspath(__file__)))

CLAIMED = {
 'C19': dict(
    text='Every helper of the arithmetic kernel is translated from the C++ source into Gallina on every run (clang AST -> N with explicit 64-bit wrap) and 14 theorems are re-checked against that fresh translation: least-multiple rounding under the stated no-wrap guard (and the wrapped value characterised outside it), align_offset value/aligns/least, is_aligned, is_valid_alignment iff power of two, alignment_for = min(2^v2(s),16), ilog2 = floor log2, ilog2_ceil = ceil log2, identity and log2 bucket selection. All 64-bit inputs, all 64 alignments: no bound. Proof is the right level because the property is a pure for-all-inputs statement.',
    note='Trusted: Coq kernel; the translator (cross-checked each run by evaluating extracted vs compiled functions on >2*10^5 boundary inputs, bit for bit); __builtin_clzll x modelled as 64 - N.size x; free_list_array::get clamp is hand-modelled (template member) and tied by the complete bucket enumeration.',
    technique='Coq proof over translator-regenerated Gallina + differential validation of the translator', ref='5 C19'),
}

CLAIMED['C07'] = dict(
    text='Executable model of iteration_allocator<N> (Iteration.v) with theorems for every N>=1, every block size, every operation sequence: the N regions tile the block exactly; the invariant holds in every reachable state; each served request is aligned, inside the current region and disjoint from everything live; an allocation stays live across any operations containing fewer than N switches and no allocator write event touches it; a switch restores the full region capacity and never takes the crashing path; a failed request changes nothing. The region formula of the model is proved equal to block_start as translated from the source on this run. The constructor found at the pinned commit is refuted in Coq (N=3, size=1025) and was repaired (fix commit).',
    note='Trusted: Coq kernel; hand-written Exec model tied to the real allocator by lock-step replay (every address, outcome, iteration index and capacity_left(i)) for N=1..5 in configurations base/rel/dbg8(/dbg16), block sizes covering every residue mod N; sizes are unbounded Z in the model (requests below 2^63; wrap-around of size_t in the bounds check is not modelled).',
    technique='Coq invariant proof over an executable state machine + lock-step correspondence via extracted OCaml', ref='5 C07')

CLAIMED['C06'] = dict(
    text='Exec model of memory_stack over a cached arena (Stack.v). Theorems for every history of allocations (any size/alignment/fence), block growth, nested markers and unwinds and shrink_to_fit: unwinding to a marker restores the block stack, the top and hence capacity_left of the moment it was taken, is never reported and issues no upstream call; dropped blocks go to the cache in the order that brings them back first; replay equality (the same requests after the unwind give the same outcomes and addresses, served from the cache alone); valid markers are totally ordered consistently with the order they were taken; only shrink_to_fit releases blocks.',
    note='Trusted: Coq kernel; hand-written Exec model tied to memory_stack<growing|fixed> by lock-step replay of every address, marker field, capacity_left/next_capacity and upstream call in 3-4 debug configurations; the log-level oracle re-checks capacity restoration, replay blocks and content of older allocations on the real code. Not proved in Coq yet: that the write events of an unwind avoid older allocations (checked on the implementation by content patterns).',
    technique='Coq invariant proofs over an executable state machine + lock-step correspondence via extracted OCaml', ref='5 C06')
CLAIMED['C05'] = dict(
    text='Exec models of memory_arena (cached/uncached, any block source) and memory_stack. Theorems for every operation history, including a failing block source at any call: the upstream calls of every operation are a LIFO step on the blocks held (acquire appends, release returns the newest block with the same address and size); any history followed by destruction returns every block exactly once in reverse order of acquisition; cached blocks are reused before the source is asked; a source failure leaves the arena unchanged.',
    note='Trusted: Coq kernel; Exec models tied by lock-step replay to memory_arena over growing, fixed, static and virtual block sources and to memory_stack; pools, collections and iteration allocators are covered by the bracket oracle on their upstream logs (with the k-th upstream call failing, moves and move assignments) and by the stale-write detector of the instrumented upstream, not by a theorem about their own code paths.',
    technique='Coq proofs over executable arena/stack models + lock-step correspondence + upstream-log bracket oracle', ref='5 C05')

NOT_YET = {}

checks = []
for pid in sorted(CLAIMED):
    c = CLAIMED[pid]
    checks.append(dict(
        property_id=pid, quick_cmd='./check %s --tier quick' % pid, thorough_cmd='./check %s --tier thorough' % pid,
        evidence_file='/verif/evidence/%s.json' % pid, replay_cmd_template='./check %s --replay {path}' % pid,
        engine='rocq-proof', level_claimed=dict(category=c.get('category', 'proof'), text=c['text'], design_ref='DESIGN.md section ' + c['ref']),
        level_note=c['note'], technique=c['technique']))

na = []
for i in range(1, 21):
    pid = 'C%02d' % i
    if pid not in CLAIMED:
        na.append(dict(property_id=pid, reason=NOT_YET.get(pid, 'not claimed yet: model, theorems and correspondence for this property are still being built in this round (see DESIGN.md section 9, build order); no check is registered until it passes on the unchanged tree')))

m = dict(version=1, setup_cmd='make -C /verif setup',
         hooks=dict(guard='FOONATHAN_MEMORY_VERIF', enable='every harness/library build by vlib/build.py passes -DFOONATHAN_MEMORY_VERIF=1',
                    baseline_off_cmd='cmake --build /repo/_build -j16 && ctest --test-dir /repo/_build -j8 --timeout 900',
                    source_commits=[], add_only=True),
         engines=[dict(name='rocq-proof', path='/verif/check', serves_properties=sorted(CLAIMED),
                       kind_free_text='Coq 8.16 theorems over translator-regenerated and hand-written executable models; correspondence by extracted OCaml replay of C++ harness logs')],
         checks=checks, not_applicable=na,
         notes='See DESIGN.md. Checks rebuild the library and harnesses from /repo working tree (content-hash cache under /verif/.cache).')
json.dump(m, open(os.path.join(V, 'MANIFEST.json'), 'w'), indent=1)
print('claimed', sorted(CLAIMED))
