// C15: process-wide leak report of the stateless low-level allocators at program exit.
// usage: h_llleak <heap|malloc|new|virtual> <n allocations> <n released> <size>
// prints "REPORT <name> <amount>" from the leak handler (called during static destruction) and "EXIT"
#include <cstdio>
#include <cstdlib>
#include <string>
#include <vector>
#include "heap_allocator.hpp"
#include "malloc_allocator.hpp"
#include "new_allocator.hpp"
#include "virtual_memory.hpp"
#include "allocator_traits.hpp"
#include "debugging.hpp"
using namespace foonathan::memory;

static void h_leak(const allocator_info& info, std::ptrdiff_t amount) noexcept { std::printf("REPORT %s %ld\n", info.name, long(amount)); std::fflush(stdout); }

template <class A>
static void run(int n, int rel, std::size_t size)
{
    A a; std::vector<void*> ps;
    for (int i = 0; i < n; ++i) ps.push_back(allocator_traits<A>::allocate_node(a, size + std::size_t(i), 8));
    for (int i = 0; i < rel && i < n; ++i) allocator_traits<A>::deallocate_node(a, ps[std::size_t(i)], size + std::size_t(i), 8);
    // a second allocator object of the same stateless type shares the count
    A b; if (n > rel) { A c(std::move(b)); (void)c; }
}

int main(int argc, char** argv)
{
    set_leak_handler(h_leak);
    std::string k = argv[1]; int n = std::atoi(argv[2]), rel = std::atoi(argv[3]); std::size_t size = std::size_t(std::atol(argv[4]));
    std::printf("CONFIG fence=%d\n", int(FOONATHAN_MEMORY_DEBUG_FENCE) * int(FOONATHAN_MEMORY_DEBUG_FILL));
    if (k == "heap") run<heap_allocator>(n, rel, size);
    else if (k == "malloc") run<malloc_allocator>(n, rel, size);
    else if (k == "new") run<new_allocator>(n, rel, size);
    else run<virtual_memory_allocator>(n, rel, size);
    std::printf("EXIT\n"); std::fflush(stdout);
    return 0;
}
