// Harness for memory_arena<Source, Cached>:  arena <cached|uncached> <grow|fixed|static|virtual> <block_size> <nblocks>
// ops: ab | db | shrink | q | owns off | mv | mfa | mfb | fail k | destroy
#include "hcommon.hpp"
#include "memory_arena.hpp"
#include "static_allocator.hpp"
#include "virtual_memory.hpp"
#include <sys/mman.h>
#include <sys/syscall.h>
#include <unistd.h>
#include <cerrno>
using namespace foonathan::memory;
using namespace verif;

// fault injection for the virtual memory source: the k-th commit (mprotect to read/write) fails with ENOMEM
static long g_commits = 0, g_commit_fail_at = -1;
extern "C" int mprotect(void* addr, size_t len, int prot) noexcept
{
    if (prot != PROT_NONE && ++g_commits == g_commit_fail_at) { errno = ENOMEM; return -1; }
    return int(syscall(SYS_mprotect, addr, len, prot));
}

static std::uintptr_t g_out_base = 0;
static long long xoff(const void* p)
{
    auto& U = up();
    if (U.inside(p)) return (long long)U.off(p);
    auto a = reinterpret_cast<std::uintptr_t>(p);
    if (!g_out_base) g_out_base = a;
    return (long long)(std::size_t(1) << 33) + (long long)(a - g_out_base);
}

// logging wrapper around a LIFO block source that is not fed by the instrumented upstream
template <class Base>
struct logged_source : Base
{
    using Base::Base;
    logged_source(logged_source&&) = default;
    logged_source& operator=(logged_source&&) = default;
    memory_block allocate_block()
    {
        char b[96];
        try { auto blk = Base::allocate_block(); std::snprintf(b, sizeof b, " U+ %zu 16 %lld", blk.size, xoff(blk.memory)); up().oplog += b; return blk; }
        catch (...) { std::snprintf(b, sizeof b, " U+ %zu 16 fail", Base::next_block_size()); up().oplog += b; throw; }
    }
    void deallocate_block(memory_block blk) noexcept
    {
        char b[96]; std::snprintf(b, sizeof b, " U- %zu 16 %lld", blk.size, xoff(blk.memory)); up().oplog += b;
        Base::deallocate_block(blk);
    }
};

template <class Arena, class Make, class Make2>
int run_script(Make make, Make2 make2, const std::string& header)
{
    auto& U = up();
    Arena* ar = nullptr;
    try { ar = make(U.place(sizeof(Arena))); }
    catch (...) { std::printf("%s = throw %s |%s |\n", header.c_str(), classify_current(), U.take().c_str()); return 0; }
    auto caps = [&]() { char b[160]; std::snprintf(b, sizeof b, "size=%zu cache=%zu next=%zu", ar->size(), ar->cache_size(), ar->next_block_size()); return std::string(b); };
    std::printf("%s = ok |%s | %s\n", header.c_str(), U.take().c_str(), caps().c_str());
    std::vector<Arena*> graveyard;
    std::string line;
    while (std::getline(std::cin, line))
    {
        std::istringstream is(line); std::string op; is >> op;
        if (op.empty()) continue;
        long oom0 = hc().oom;
        std::string res;
        if (op == "ab")
        {
            const char* e = nullptr; memory_block blk;
            try { blk = ar->allocate_block(); } catch (...) { e = classify_current(); }
            char b[160];
            if (e) std::snprintf(b, sizeof b, "throw %s oom=%ld", e, hc().oom - oom0);
            else
            {
                std::snprintf(b, sizeof b, "ok %lld %zu", xoff(blk.memory), blk.size);
                // the whole block must be usable: write it
                std::memset(blk.memory, 0x5A, blk.size);
                auto cur = ar->current_block();
                if (cur.memory != blk.memory || cur.size != blk.size) std::printf("mismatch current_block\n");
            }
            res = b;
        }
        else if (op == "db") { if (ar->size() == 0) { std::printf("%s = skipped\n", line.c_str()); continue; } ar->deallocate_block(); res = "done"; }
        else if (op == "shrink") { ar->shrink_to_fit(); res = "done"; }
        else if (op == "q") res = "q";
        else if (op == "owns") { long long off; is >> off; res = ar->owns(U.base + off) ? "true" : "false"; }
        else if (op == "fail") { long k; is >> k; U.fail_at = U.calls + k; g_commit_fail_at = g_commits + k; res = "set"; }
        else if (op == "mv") { Arena* n = new (U.place(sizeof(Arena))) Arena(std::move(*ar)); graveyard.push_back(ar); ar = n; res = "moved"; }
        else if (op == "mfa")
        {   // move-assign a fresh arena (holding one block) into a moved-from one, then destroy it
            bool own_source = header.find(" grow ") != std::string::npos || header.find(" fixed ") != std::string::npos;
            if (graveyard.empty() || !own_source) { std::printf("%s = skipped\n", line.c_str()); continue; }
            U.fail_at = -1;
            Arena* g = graveyard.back(); graveyard.pop_back();
            Arena* f = make(U.place(sizeof(Arena))); f->allocate_block();
            *g = std::move(*f); g->~Arena(); graveyard.push_back(f); res = "done";
        }
        else if (op == "mfb")
        {   // move-assign from a busy arena over a second, distinguishable source (upstream tag 7): the target's blocks
            // go back to the target's old source, the other arena's used and cached blocks travel with their source
            bool own_source = header.find(" grow ") != std::string::npos || header.find(" fixed ") != std::string::npos;
            if (!own_source) { std::printf("%s = skipped\n", line.c_str()); continue; }
            U.fail_at = -1;
            Arena* f = make2(U.place(sizeof(Arena))); f->allocate_block();
            if (header.find(" grow ") != std::string::npos) { f->allocate_block(); f->deallocate_block(); }
            *ar = std::move(*f); graveyard.push_back(f); res = "done";
        }
        else if (op == "destroy") { ar->~Arena(); for (auto g : graveyard) g->~Arena(); std::printf("destroy = ok |%s |\n", U.take().c_str()); break; }
        else { std::printf("? %s\n", line.c_str()); continue; }
        std::string ev = U.take();
        std::printf("%s = %s |%s | %s\n", line.c_str(), res.c_str(), ev.c_str(), caps().c_str());
        std::fflush(stdout);
    }
    std::printf("end live_blocks=%zu errors=%ld stale_writes=%zu\n", U.live_count(), U.errors, U.stale_writes());
    return 0;
}

template <bool Cached>
int dispatch(const std::string& src, std::size_t bs, std::size_t nb, const std::string& header)
{
    up_alloc tagged; tagged.tag = 7;
    if (src == "grow") { using A = memory_arena<growing_block_allocator<up_alloc>, Cached>; return run_script<A>([=](void* s) { return new (s) A(bs); }, [=](void* s) { return new (s) A(bs, tagged); }, header); }
    if (src == "fixed") { using A = memory_arena<fixed_block_allocator<up_alloc>, Cached>; return run_script<A>([=](void* s) { return new (s) A(bs); }, [=](void* s) { return new (s) A(bs, tagged); }, header); }
    if (src == "static")
    {
        using A = memory_arena<logged_source<static_block_allocator>, Cached>;
        static static_allocator_storage<16384> storage;   // nb * bs must divide it (generator uses bs in {1024, 2048, 4096})
        (void)nb;
        return run_script<A>([=](void* s) { return new (s) A(bs, storage); }, [=](void* s) { return new (s) A(bs, storage); }, header);
    }
    using A = memory_arena<logged_source<virtual_block_allocator>, Cached>;
    return run_script<A>([=](void* s) { return new (s) A(bs, nb); }, [=](void* s) { return new (s) A(bs, nb); }, header);
}

int main()
{
    install_quiet_handlers();
    up().init();
    std::string line; std::getline(std::cin, line);
    std::istringstream is(line); std::string kind, cached, src; std::size_t bs, nb; is >> kind >> cached >> src >> bs >> nb;
    return cached == "cached" ? dispatch<true>(src, bs, nb, line) : dispatch<false>(src, bs, nb, line);
}
