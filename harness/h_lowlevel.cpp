// Low-level allocators with fences: heap, malloc, new, virtual.
// input: "c <alloc> <size> <al> <k> (<rel offset> <value>)*k"   rel offset relative to the node, may be negative
// output: "c ... = fence=<F> calls=<n> (<rel ptr>)* pre=<0|1: fill_new pattern exact> freed=<0|1|-1>"
#include "hcommon.hpp"
#include "heap_allocator.hpp"
#include "malloc_allocator.hpp"
#include "new_allocator.hpp"
#include "virtual_memory.hpp"
#include "allocator_traits.hpp"
using namespace foonathan::memory;
using namespace verif;

static std::vector<std::ptrdiff_t> g_calls; static const char* g_node = nullptr; static std::size_t g_size = 0; static bool g_badargs = false;
static void h_overflow(const void* memory, std::size_t size, const void* write_ptr) noexcept
{
    if (memory != g_node || size != g_size) g_badargs = true;
    g_calls.push_back(static_cast<const char*>(write_ptr) - g_node);
}

template <class A>
static void cycle(const std::string& line, std::size_t size, std::size_t al, const std::vector<std::pair<long, int>>& ws, std::size_t fence)
{
    A a;
    using traits = allocator_traits<A>;
    auto node = static_cast<unsigned char*>(traits::allocate_node(a, size, al));
    g_node = reinterpret_cast<const char*>(node); g_size = size; g_calls.clear(); g_badargs = false;
    // fill pattern exact?
    int pre = 1;
#if FOONATHAN_MEMORY_DEBUG_FILL
    for (std::size_t i = 0; i < size; ++i) if (node[i] != 0xCD) pre = 0;
    for (std::size_t i = 0; i < fence; ++i) if (node[-long(i) - 1] != 0xFD || node[size + i] != 0xFD) pre = 0;
#endif
    if (reinterpret_cast<std::uintptr_t>(node) % al) pre = 0;
    for (auto& w : ws) node[w.first] = (unsigned char)w.second;
    traits::deallocate_node(a, node, size, al);
    std::printf("%s = fence=%zu calls=%zu", line.c_str(), fence, g_calls.size());
    for (auto c : g_calls) std::printf(" %ld", long(c));
    std::printf(" pre=%d badargs=%d\n", pre, int(g_badargs));
}

int main()
{
    install_quiet_handlers();
    set_buffer_overflow_handler(h_overflow);
    std::string line;
    while (std::getline(std::cin, line))
    {
        std::istringstream is(line); std::string k, alloc; std::size_t size, al, n; is >> k >> alloc >> size >> al >> n;
        if (k != "c") continue;
        std::vector<std::pair<long, int>> ws;
        for (std::size_t i = 0; i < n; ++i) { long o; int v; is >> o >> v; ws.push_back({o, v}); }
        std::size_t fence = detail::debug_fence_size ? detail::max_alignment : 0;
        if (alloc == "heap") cycle<heap_allocator>(line, size, al, ws, fence);
        else if (alloc == "malloc") cycle<malloc_allocator>(line, size, al, ws, fence);
        else if (alloc == "new") cycle<new_allocator>(line, size, al, ws, fence);
        else cycle<virtual_memory_allocator>(line, size, al, ws, detail::debug_fence_size ? virtual_memory_page_size : 0);
        std::fflush(stdout);
    }
    std::printf("end leaks=%ld\n", hc().leak);
}
