// C18: min_block_size / carving enumeration on the real free lists and pools.
// input lines: "L <type 0 node|1 array|2 small> <ns> <n>"  -> list-level: insert min_block_size bytes, report capacity
//              "P <type> <ns> <n>"                          -> pool-level: memory_pool with min_block_size, count try_allocate_node
//              "S <ns> <size>"                              -> small list: insert size bytes (>= one node), report capacity
#include "hcommon.hpp"
#include "detail/free_list.hpp"
#include "detail/small_free_list.hpp"
#include "memory_pool.hpp"
using namespace foonathan::memory;
using namespace foonathan::memory::detail;
using namespace verif;

static char* buffer(std::size_t size)
{
    static char* buf = nullptr; static std::size_t cap = 0;
    if (size + 64 > cap) { std::free(buf); cap = size + 64 + (1 << 20); buf = static_cast<char*>(std::aligned_alloc(64, cap)); }
    return buf;
}

template <class Pool>
static std::size_t pool_count(std::size_t ns, std::size_t n, std::size_t& bs, long& grew)
{
    bs = Pool::min_block_size(ns, n);
    long c0 = up().calls;
    Pool pool(ns, bs);
    std::size_t got = 0;
    while (pool.try_allocate_node()) { ++got; if (got > n + 100000) break; }
    grew = up().calls - c0 - 1;
    return got;
}

int main()
{
    install_quiet_handlers();
    std::string line;
    while (std::getline(std::cin, line))
    {
        std::istringstream is(line); std::string k; is >> k;
        if (k == "L")
        {
            int t; std::size_t ns, n; is >> t >> ns >> n;
            std::size_t bs = t == 0 ? free_memory_list::min_block_size(ns, n) : t == 1 ? ordered_free_memory_list::min_block_size(ns, n) : small_free_memory_list::min_block_size(ns, n);
            char* b = buffer(bs); std::size_t cap = 0, lns = 0;
            if (t == 0) { free_memory_list l(ns, b, bs); cap = l.capacity(); lns = l.node_size(); }
            else if (t == 1) { ordered_free_memory_list l(ns, b, bs); cap = l.capacity(); lns = l.node_size(); }
            else { small_free_memory_list l(ns, b, bs); cap = l.capacity(); lns = l.node_size(); }
            std::printf("L %d %zu %zu = %zu %zu %zu\n", t, ns, n, bs, cap, lns);
        }
        else if (k == "S")
        {
            std::size_t ns, size; is >> ns >> size;
            char* b = buffer(size);
            small_free_memory_list l(ns, b, size);
            std::printf("S %zu %zu = %zu\n", ns, size, l.capacity());
        }
        else if (k == "P")
        {
            int t; std::size_t ns, n; is >> t >> ns >> n; std::size_t bs = 0, got = 0; long grew = 0;
            up().bump = 1 << 16;   // pools are destroyed before the next line: reuse the region
            up().blocks.clear();
            if (t == 0) got = pool_count<memory_pool<node_pool, up_alloc>>(ns, n, bs, grew);
            else if (t == 1) got = pool_count<memory_pool<array_pool, up_alloc>>(ns, n, bs, grew);
            else got = pool_count<memory_pool<small_node_pool, up_alloc>>(ns, n, bs, grew);
            up().take();
            std::printf("P %d %zu %zu = %zu %zu %ld\n", t, ns, n, bs, got, grew);
        }
    }
}
