// C16 harness: the debug checks on releases.  Bad calls run in a forked child whose invalid-pointer handler
// exits with a distinct code, so the parent sees "reported" / "abort" / "crash" / "accepted" and keeps its state.
//  mode ord   : the real detail::ordered_free_memory_list in lock-step (nodes and last-deallocation cursor after every op)
//               header "ord <node_size> <low|high>"; ops: ins off size | a | aa bytes | d k | dbl k | dbla k nn | q
//  mode small : the real detail::small_free_memory_list; ops: ins off size | a | d k | bad outside off | bad mis k delta | bad dbl k
//  mode lifo  : static / virtual / fixed block sources: "lifo <static|virtual|fixed> <bs> <n>"; ops: ab | db | bad k
//  mode unwind: memory_stack: ops: a size | m | u k | bad k (unwind to a marker taken above the current top)
//  mode pool  : memory_pool<node|array|small>: double release / foreign release through the public interface
#include "hcommon.hpp"
#include "detail/free_list.hpp"
#include "detail/small_free_list.hpp"
#include "detail/free_list_utils.hpp"   // from /repo/src (-I)
#include "memory_pool.hpp"
#include "memory_stack.hpp"
#include "static_allocator.hpp"
#include "virtual_memory.hpp"
#include "memory_arena.hpp"
#include <sys/wait.h>
#include <unistd.h>
#include <csignal>
#include <cstring>
#include <vector>
#include <functional>
using namespace foonathan::memory;
using namespace foonathan::memory::detail;
using namespace verif;

// at the moment of the report the allocator must still be in the state it had before the call
static std::function<std::string()> g_dump; static std::string g_before;
static void h_invalid(const allocator_info&, const void*) { if (g_dump && g_dump() != g_before) _exit(79); _exit(77); }
static void h_overflow(const void*, std::size_t, const void*) { _exit(78); }

// run f in a child; classify
static const char* in_child(const std::function<void()>& f, std::function<std::string()> dump = nullptr)
{
    std::fflush(stdout);
    g_dump = dump; if (dump) g_before = dump();
    pid_t pid = fork();
    if (pid == 0)
    {
        // quiet: the library's assertion handler prints to stderr
        if (!freopen("/dev/null", "w", stderr)) {}
        alarm(5);   // a bad call must not hang either
        set_invalid_pointer_handler(h_invalid);
        set_buffer_overflow_handler(h_overflow);
        f();
        _exit(0);
    }
    int st = 0; waitpid(pid, &st, 0);
    if (WIFEXITED(st)) return WEXITSTATUS(st) == 77 ? "reported" : WEXITSTATUS(st) == 79 ? "reported-after-change" : WEXITSTATUS(st) == 0 ? "accepted" : WEXITSTATUS(st) == 78 ? "overflow" : "exit";
    if (WIFSIGNALED(st)) return WTERMSIG(st) == SIGABRT ? "abort" : WTERMSIG(st) == SIGALRM ? "hang" : "crash";
    return "unknown";
}

struct layout { alignas(16) char low[256]; alignas(16) char mem[1 << 17]; alignas(16) char high[256]; };
static layout g;

// every byte of the memory the lists manage: at the moment of a report nothing may have been written (not even the freed pattern)
static std::string mem_hash() { unsigned long long h = 1469598103934665603ULL; for (std::size_t i = 0; i < sizeof g.mem; ++i) { h ^= (unsigned char)g.mem[i]; h *= 1099511628211ULL; } char b[40]; std::snprintf(b, sizeof b, " bytes=%016llx", h); return b; }

// ---------------------------------------------------------------- ordered list
static std::string dump(ordered_free_memory_list& l)
{
    std::string s = "nodes=";
    char* prev = l.begin_node(); char* cur = xor_list_get_other(prev, nullptr);
    long idx = 0, ldp = -1; bool first = true;
    if (l.last_dealloc_prev_ == l.begin_node()) ldp = 0;
    while (cur != l.end_node())
    {
        ++idx;
        char b[32]; std::snprintf(b, sizeof b, "%s%ld", first ? "" : ",", long(cur - g.mem)); s += b; first = false;
        if (cur == l.last_dealloc_prev_) ldp = idx;
        char* next = xor_list_get_other(cur, prev); prev = cur; cur = next;
        if (idx > 100000) break;
    }
    if (first) s += "-";
    // sanity: last_dealloc_ is the successor of last_dealloc_prev_
    char* succ = nullptr;
    {
        char* p = l.begin_node(); char* c = xor_list_get_other(p, nullptr); long i = 0;
        if (ldp == 0) succ = c;
        while (c != l.end_node()) { ++i; char* n = xor_list_get_other(c, p); if (i == ldp) succ = n; p = c; c = n; }
    }
    char b[96]; std::snprintf(b, sizeof b, " ldp=%ld adjacent=%d cap=%zu", ldp, int(succ == l.last_dealloc_), l.capacity()); s += b;
    return s;
}

static int run_ord(std::istringstream& hs, const std::string& header)
{
    std::size_t ns; std::string pos; hs >> ns >> pos;
    void* slot = pos == "low" ? static_cast<void*>(g.low) : static_cast<void*>(g.high);
    auto* l = new (slot) ordered_free_memory_list(ns);
    std::printf("%s = ok | pb=%ld pe=%ld ns=%zu dbl=%d asserts=%d | %s\n", header.c_str(), long(l->begin_node() - g.mem), long(l->end_node() - g.mem), l->node_size(),
                FOONATHAN_MEMORY_DEBUG_DOUBLE_DEALLOC_CHECK, FOONATHAN_MEMORY_DEBUG_ASSERT, dump(*l).c_str());
    struct h { char* p; std::size_t bytes; };
    std::vector<h> live; std::string line;
    while (std::getline(std::cin, line))
    {
        std::istringstream is(line); std::string op; is >> op; std::string res;
        if (op == "ins") { std::size_t off, size; is >> off >> size; l->insert(g.mem + off, size); res = "done"; }
        else if (op == "a") { if (l->empty()) { std::printf("%s = skipped\n", line.c_str()); continue; } char* p = static_cast<char*>(l->allocate()); live.push_back({p, l->node_size()}); res = "ok " + std::to_string(p - g.mem); }
        else if (op == "aa")
        {
            std::size_t bytes; is >> bytes; if (l->empty()) { std::printf("%s = skipped\n", line.c_str()); continue; }
            char* p = static_cast<char*>(l->allocate(bytes));
            if (p) { live.push_back({p, bytes}); res = "ok " + std::to_string(p - g.mem); } else res = "null";
        }
        else if (op == "d")
        {
            std::size_t k; is >> k; if (live.empty()) { std::printf("%s = skipped\n", line.c_str()); continue; }
            k %= live.size(); auto x = live[k]; live.erase(live.begin() + long(k));
            if (x.bytes > l->node_size()) l->deallocate(x.p, x.bytes); else l->deallocate(x.p);
            res = "released " + std::to_string(x.p - g.mem) + " " + std::to_string(x.bytes);
        }
        else if (op == "dbl")
        {   // release a node that is on the free list
            std::size_t k; is >> k; if (l->empty()) { std::printf("%s = skipped\n", line.c_str()); continue; }
            std::vector<char*> nodes; { char* p = l->begin_node(); char* c = xor_list_get_other(p, nullptr); while (c != l->end_node()) { nodes.push_back(c); char* n = xor_list_get_other(c, p); p = c; c = n; } }
            char* victim = nodes[k % nodes.size()];
            const char* cls = in_child([&] { l->deallocate(victim); }, [&] { return dump(*l) + mem_hash(); });
            res = std::string(cls) + " " + std::to_string(victim - g.mem) + " index=" + std::to_string(k % nodes.size() + 1);
        }
        else if (op == "dbla")
        {   // release, as an array of nn nodes, memory whose first node is on the free list (deallocate(ptr, n) with n > node size)
            std::size_t k, nn; is >> k >> nn; if (l->empty() || nn < 2) { std::printf("%s = skipped\n", line.c_str()); continue; }
            std::vector<char*> nodes; { char* p = l->begin_node(); char* c = xor_list_get_other(p, nullptr); while (c != l->end_node()) { nodes.push_back(c); char* n = xor_list_get_other(c, p); p = c; c = n; } }
            char* victim = nodes[k % nodes.size()]; std::size_t bytes = nn * l->node_size();
            if (victim + bytes > g.mem + sizeof g.mem) { std::printf("%s = skipped\n", line.c_str()); continue; }
            const char* cls = in_child([&] { l->deallocate(victim, bytes); }, [&] { return dump(*l) + mem_hash(); });
            res = std::string(cls) + " " + std::to_string(victim - g.mem) + " " + std::to_string(bytes) + " index=" + std::to_string(k % nodes.size() + 1);
        }
        else if (op == "q") res = "q";
        else continue;
        std::printf("%s = %s | %s\n", line.c_str(), res.c_str(), dump(*l).c_str());
    }
    return 0;
}

// ---------------------------------------------------------------- unordered list (valid histories only: it has no checks)
static std::string dump_u(free_memory_list& l)
{
    std::string s = "nodes="; bool first = true; long n = 0;
    for (char* cur = l.first_; cur; cur = list_get_next(cur)) { char b[32]; std::snprintf(b, sizeof b, "%s%ld", first ? "" : ",", long(cur - g.mem)); s += b; first = false; if (++n > 100000) break; }
    if (first) s += "-";
    char b[48]; std::snprintf(b, sizeof b, " cap=%zu", l.capacity()); s += b;
    return s;
}
static int run_unord(std::istringstream& hs, const std::string& header)
{
    std::size_t ns; hs >> ns;
    auto* l = new (static_cast<void*>(g.low)) free_memory_list(ns);
    std::printf("%s = ok | ns=%zu | %s\n", header.c_str(), l->node_size(), dump_u(*l).c_str());
    struct h { char* p; std::size_t bytes; };
    std::vector<h> live; std::string line;
    while (std::getline(std::cin, line))
    {
        std::istringstream is(line); std::string op; is >> op; std::string res;
        if (op == "ins") { std::size_t off, size; is >> off >> size; l->insert(g.mem + off, size); res = "done"; }
        else if (op == "a") { if (l->empty()) { std::printf("%s = skipped\n", line.c_str()); continue; } char* p = static_cast<char*>(l->allocate()); live.push_back({p, l->node_size()}); res = "ok " + std::to_string(p - g.mem); }
        else if (op == "aa")
        {
            std::size_t bytes; is >> bytes; if (l->empty()) { std::printf("%s = skipped\n", line.c_str()); continue; }
            char* p = static_cast<char*>(l->allocate(bytes));
            if (p) { live.push_back({p, bytes}); res = "ok " + std::to_string(p - g.mem); } else res = "null";
        }
        else if (op == "d")
        {
            std::size_t k; is >> k; if (live.empty()) { std::printf("%s = skipped\n", line.c_str()); continue; }
            k %= live.size(); auto x = live[k]; live.erase(live.begin() + long(k));
            if (x.bytes > l->node_size()) l->deallocate(x.p, x.bytes); else l->deallocate(x.p);
            res = "released " + std::to_string(x.p - g.mem) + " " + std::to_string(x.bytes);
        }
        else if (op == "q") res = "q";
        else continue;
        std::printf("%s = %s | %s\n", line.c_str(), res.c_str(), dump_u(*l).c_str());
    }
    return 0;
}

// ---------------------------------------------------------------- small list
static std::string dump_small(small_free_memory_list& l)
{
    std::string s = "chunks=";
    bool first = true;
    for (chunk_base* c = l.base_.next; c != &l.base_; c = c->next)
    {
        auto mem = reinterpret_cast<unsigned char*>(c) + chunk_memory_offset;
        char b[64]; std::snprintf(b, sizeof b, "%s%ld:%u:", first ? "" : ";", long(reinterpret_cast<char*>(mem) - g.mem), unsigned(c->no_nodes)); s += b; first = false;
        unsigned idx = c->first_free; int guard = 0; bool f2 = true;
        while (idx != c->no_nodes && guard++ < 300) { std::snprintf(b, sizeof b, "%s%u", f2 ? "" : ",", idx); s += b; f2 = false; idx = *(mem + idx * l.node_size()); }
        if (f2) s += "-";
    }
    if (first) s += "-";
    { char b[48]; std::snprintf(b, sizeof b, " dc=%ld", l.dealloc_chunk_ == &l.base_ ? -999999L : long(reinterpret_cast<char*>(l.dealloc_chunk_) - g.mem)); s += b; }
    { char b[48]; std::snprintf(b, sizeof b, " ac=%ld", l.alloc_chunk_ == &l.base_ ? -999999L : long(reinterpret_cast<char*>(l.alloc_chunk_) - g.mem)); s += b; }
    return s;
}

static int run_small(std::istringstream& hs, const std::string& header)
{
    std::size_t ns; std::string pos; hs >> ns >> pos;
    auto* l = new (pos == "high" ? static_cast<void*>(g.high) : static_cast<void*>(g.low)) small_free_memory_list(ns);
    std::printf("%s = ok | ns=%zu dbl=%d asserts=%d ptr=%d base=%ld | %s\n", header.c_str(), l->node_size(), FOONATHAN_MEMORY_DEBUG_DOUBLE_DEALLOC_CHECK, FOONATHAN_MEMORY_DEBUG_ASSERT, FOONATHAN_MEMORY_DEBUG_POINTER_CHECK,
                long(reinterpret_cast<char*>(&l->base_) - g.mem), dump_small(*l).c_str());
    std::vector<char*> live, freed; std::string line;
    while (std::getline(std::cin, line))
    {
        std::istringstream is(line); std::string op; is >> op; std::string res;
        if (op == "ins") { std::size_t off, size; is >> off >> size; l->insert(g.mem + off, size); res = "done"; }
        else if (op == "a")
        {
            if (l->empty()) { std::printf("%s = skipped\n", line.c_str()); continue; }
            char* p = static_cast<char*>(l->allocate()); live.push_back(p);
            for (std::size_t i = 0; i < freed.size(); ++i) if (freed[i] == p) { freed.erase(freed.begin() + long(i)); break; }
            res = "ok " + std::to_string(p - g.mem);
        }
        else if (op == "d")
        {
            std::size_t k; is >> k; if (live.empty()) { std::printf("%s = skipped\n", line.c_str()); continue; }
            k %= live.size(); char* p = live[k]; live.erase(live.begin() + long(k));
            // a valid release must never be reported: run it in the parent with the default (aborting) handler
            l->deallocate(p); freed.push_back(p); res = "released " + std::to_string(p - g.mem);
        }
        else if (op == "bad")
        {
            std::string what; is >> what; char* victim = nullptr; std::string tag;
            if (what == "outside") { long off; is >> off; victim = g.mem + off; tag = "outside"; }
            else if (what == "mis") { std::size_t k, delta; is >> k >> delta; if (live.empty() || l->node_size() < 2) { std::printf("%s = skipped\n", line.c_str()); continue; } victim = live[k % live.size()] + 1 + delta % (l->node_size() - 1); tag = "misaligned"; }
            else if (what == "dbl") { std::size_t k; is >> k; if (freed.empty()) { std::printf("%s = skipped\n", line.c_str()); continue; } victim = freed[k % freed.size()]; tag = (k % freed.size() == freed.size() - 1) ? "dbl-latest" : "dbl"; }
            else continue;
            std::string before = dump_small(*l);
            const char* cls = in_child([&] { l->deallocate(victim); }, [&] { return dump_small(*l) + mem_hash(); });
            res = std::string(cls) + " " + tag + " " + std::to_string(victim - g.mem);
        }
        else continue;
        std::printf("%s = %s | %s cap=%zu\n", line.c_str(), res.c_str(), dump_small(*l).c_str(), l->capacity());
    }
    return 0;
}

// ---------------------------------------------------------------- LIFO block sources
// what a refused return must leave alone: the source's own cursor / loan state
static std::string dump_src(static_block_allocator& s) { return std::to_string(reinterpret_cast<std::uintptr_t>(s.cur_)); }
static std::string dump_src(virtual_block_allocator& s) { return std::to_string(reinterpret_cast<std::uintptr_t>(s.cur_)) + ":" + std::to_string(s.capacity_left()); }
static std::string dump_src(fixed_block_allocator<up_alloc>& s) { return std::to_string(s.next_block_size()); }
template <class Src, class Mk>
static int run_lifo_t(Mk mk, const std::string& header, std::size_t bs)
{
    Src* s = mk();
    std::printf("%s = ok | ptr=%d asserts=%d\n", header.c_str(), FOONATHAN_MEMORY_DEBUG_POINTER_CHECK, FOONATHAN_MEMORY_DEBUG_ASSERT);
    std::vector<memory_block> held; std::string line;
    while (std::getline(std::cin, line))
    {
        std::istringstream is(line); std::string op; is >> op; std::string res;
        if (op == "ab") { try { auto b = s->allocate_block(); held.push_back(b); res = "ok"; } catch (...) { res = std::string("throw ") + classify_current(); } }
        else if (op == "db") { if (held.empty()) { std::printf("%s = skipped\n", line.c_str()); continue; } auto b = held.back(); held.pop_back(); s->deallocate_block(b); res = "done"; }
        else if (op == "bad")
        {   // return a block that is not the most recently acquired one
            std::size_t k; is >> k; if (held.size() < 2) { std::printf("%s = skipped\n", line.c_str()); continue; }
            k %= held.size() - 1; auto b = held[k];
            const char* cls = in_child([&] { s->deallocate_block(b); }, [&] { return dump_src(*s); });
            res = std::string(cls) + " position=" + std::to_string(k) + " of=" + std::to_string(held.size());
        }
        else if (op == "fail") { up().fail_at = up().calls + 1; res = "set"; }     // the next upstream call of the fixed source fails
        else if (op == "badfree")
        {   // fixed source: a block is returned although none is out
            if (!held.empty()) { std::printf("%s = skipped\n", line.c_str()); continue; }
            alignas(16) static char fake[64];
            const char* cls = in_child([&] { s->deallocate_block(memory_block(fake, bs)); }, [&] { return dump_src(*s); });
            res = std::string(cls) + " none-out";
        }
        else continue;
        std::printf("%s = %s | held=%zu\n", line.c_str(), res.c_str(), held.size());
    }
    return 0;
}

static int run_lifo(std::istringstream& hs, const std::string& header)
{
    std::string kind; std::size_t bs, n; hs >> kind >> bs >> n;
    if (kind == "static") { static static_allocator_storage<1 << 16> st; return run_lifo_t<static_block_allocator>([&] { return new static_block_allocator(bs, st); }, header, bs); }
    if (kind == "virtual") return run_lifo_t<virtual_block_allocator>([&] { return new virtual_block_allocator(bs, n); }, header, bs);
    return run_lifo_t<fixed_block_allocator<up_alloc>>([&] { return new fixed_block_allocator<up_alloc>(bs); }, header, bs);
}

// ---------------------------------------------------------------- valid histories of a stack over the LIFO-only block sources
// (blocks go to the arena's cache on unwind and back to the source on shrink_to_fit / destruction: always newest first,
//  or the source's order check reports a release that was valid).  Everything runs in this process: a report stops it.
template <class Stack, class Make>
static int run_lstack_t(Make make, const std::string& header)
{
    Stack* st = make();
    std::printf("%s = ok | ptr=%d asserts=%d\n", header.c_str(), FOONATHAN_MEMORY_DEBUG_POINTER_CHECK, FOONATHAN_MEMORY_DEBUG_ASSERT);
    std::vector<typename Stack::marker> ms; std::string line;
    while (std::getline(std::cin, line))
    {
        std::istringstream is(line); std::string op; is >> op; std::string res;
        if (op == "a") { std::size_t size; is >> size; try { st->allocate(size, 8); res = "ok"; } catch (...) { res = std::string("throw ") + classify_current(); } }
        else if (op == "m") { ms.push_back(st->top()); res = "marker " + std::to_string(ms.size() - 1); }
        else if (op == "u") { std::size_t k; is >> k; if (ms.empty()) { std::printf("%s = skipped\n", line.c_str()); continue; } k %= ms.size(); st->unwind(ms[k]); ms.erase(ms.begin() + long(k) + 1, ms.end()); res = "unwound"; }
        else if (op == "s") { st->shrink_to_fit(); res = "shrunk"; }
        else if (op == "r") { delete st; ms.clear(); st = make(); res = "destroyed and rebuilt"; }
        else continue;
        std::printf("%s = %s | blocks=%zu cached=%zu\n", line.c_str(), res.c_str(), st->arena_.size(), st->arena_.cache_size());
        std::fflush(stdout);
    }
    delete st;
    std::printf("end = destroyed\n");
    return 0;
}
static int run_lstack(std::istringstream& hs, const std::string& header)
{
    std::string kind; std::size_t bs; hs >> kind >> bs;
    if (kind == "static") { static static_allocator_storage<1 << 16> stg; return run_lstack_t<memory_stack<static_block_allocator>>([&] { return new memory_stack<static_block_allocator>(bs, stg); }, header); }
    return run_lstack_t<memory_stack<virtual_block_allocator>>([&] { return new memory_stack<virtual_block_allocator>(4096, std::size_t(8)); }, header);
}

// ---------------------------------------------------------------- unwind above the top
static int run_unwind(std::istringstream& hs, const std::string& header)
{
    std::size_t bs; std::string dir; hs >> bs >> dir;
    if (dir == "down") up().descending = true;     // later blocks lie at lower addresses
    memory_stack<up_alloc> st(bs);
    std::printf("%s = ok | ptr=%d asserts=%d\n", header.c_str(), FOONATHAN_MEMORY_DEBUG_POINTER_CHECK, FOONATHAN_MEMORY_DEBUG_ASSERT);
    using marker = memory_stack<up_alloc>::marker;
    struct mk { marker m; long seq; };
    std::vector<mk> ms; long seq = 0; std::string line;
    while (std::getline(std::cin, line))
    {
        std::istringstream is(line); std::string op; is >> op; std::string res;
        if (op == "a") { std::size_t size; is >> size; try { st.allocate(size, 8); ++seq; res = "ok"; } catch (...) { res = "throw"; } }
        else if (op == "m") { ms.push_back({st.top(), seq}); res = "marker " + std::to_string(ms.size() - 1); }
        else if (op == "u")
        {   // valid unwind: to a marker at or below the top; markers above it die
            std::size_t k; is >> k; if (ms.empty()) { std::printf("%s = skipped\n", line.c_str()); continue; }
            k %= ms.size(); st.unwind(ms[k].m); seq = ms[k].seq; ms.resize(k + 1, mk{ms[k].m, 0}); res = "unwound " + std::to_string(k);
        }
        else if (op == "bad")
        {   // take a marker, unwind below it, then unwind to it: it lies above the top now
            std::size_t k, extra; is >> k >> extra; if (ms.empty()) { std::printf("%s = skipped\n", line.c_str()); continue; }
            k %= ms.size();
            try { st.allocate(extra ? extra : 1, 1); } catch (...) { std::printf("%s = skipped\n", line.c_str()); continue; }
            marker above = st.top();
            st.unwind(ms[k].m); seq = ms[k].seq; ms.resize(k + 1, mk{ms[k].m, 0});
            bool same_block = above.index == st.top().index;
            const char* cls = in_child([&] { st.unwind(above); });
            res = std::string(cls) + (same_block ? " same-block" : " later-block");
        }
        else continue;
        std::printf("%s = %s | cap=%zu blocks=%zu\n", line.c_str(), res.c_str(), st.capacity_left(), st.arena_.size());
    }
    return 0;
}

// ---------------------------------------------------------------- pools through the public interface
template <class Pool>
static int run_pool_t(const std::string& header, std::size_t ns, std::size_t bs)
{
    Pool p(ns, bs);
    std::printf("%s = ok | dbl=%d asserts=%d ptr=%d\n", header.c_str(), FOONATHAN_MEMORY_DEBUG_DOUBLE_DEALLOC_CHECK, FOONATHAN_MEMORY_DEBUG_ASSERT, FOONATHAN_MEMORY_DEBUG_POINTER_CHECK);
    std::vector<void*> live, freed; std::string line;
    struct arr { void* p; std::size_t n; }; std::vector<arr> lives, freeds;
    while (std::getline(std::cin, line))
    {
        std::istringstream is(line); std::string op; is >> op; std::string res;
        if (op == "a") { void* q = p.allocate_node(); live.push_back(q); for (std::size_t i = 0; i < freed.size(); ++i) if (freed[i] == q) { freed.erase(freed.begin() + long(i)); break; }
            for (std::size_t i = 0; i < freeds.size();) { if (freeds[i].p == q) freeds.erase(freeds.begin() + long(i)); else ++i; }   // its first node is not free any more
            res = "ok"; }
        else if (op == "d") { std::size_t k; is >> k; if (live.empty()) { std::printf("%s = skipped\n", line.c_str()); continue; } k %= live.size(); void* q = live[k]; live.erase(live.begin() + long(k)); p.deallocate_node(q); freed.push_back(q); res = "released"; }
        else if (op == "dbl")
        {
            std::size_t k; is >> k; if (freed.empty()) { std::printf("%s = skipped\n", line.c_str()); continue; }
            k %= freed.size(); void* q = freed[k];
            const char* cls = in_child([&] { p.deallocate_node(q); });
            res = std::string(cls) + (k == freed.size() - 1 ? " latest" : " earlier") + " freed=" + std::to_string(freed.size());
        }
        else if (op == "aa" || op == "da" || op == "dbla")
        {   // arrays through the public interface (pools with array support only)
            if constexpr (Pool::pool_type::value)
            {
                if (op == "aa")
                {
                    std::size_t n; is >> n;
                    try { void* q = p.allocate_array(n); lives.push_back({q, n}); res = "ok"; } catch (...) { res = "throw"; }
                    // memory that is handed out again is not "already free" any more
                    for (std::size_t i = 0; i < freeds.size();) { if (lives.back().p == freeds[i].p && res == "ok") freeds.erase(freeds.begin() + long(i)); else ++i; }
                    if (res == "ok") { char* b = static_cast<char*>(lives.back().p); char* e = b + n * p.node_size();
                        for (std::size_t i = 0; i < freeds.size();) { char* f = static_cast<char*>(freeds[i].p); if (f >= b && f < e) freeds.erase(freeds.begin() + long(i)); else ++i; }
                        for (std::size_t i = 0; i < freed.size();) { char* f = static_cast<char*>(freed[i]); if (f >= b && f < e) freed.erase(freed.begin() + long(i)); else ++i; } }
                }
                else if (op == "da")
                {
                    std::size_t k; is >> k; if (lives.empty()) { std::printf("%s = skipped\n", line.c_str()); continue; }
                    k %= lives.size(); auto x = lives[k]; lives.erase(lives.begin() + long(k)); p.deallocate_array(x.p, x.n); freeds.push_back(x); res = "released";
                }
                else
                {
                    std::size_t k; is >> k; if (freeds.empty()) { std::printf("%s = skipped\n", line.c_str()); continue; }
                    k %= freeds.size(); auto x = freeds[k];
                    const char* cls = in_child([&] { p.deallocate_array(x.p, x.n); });
                    res = std::string(cls) + (k == freeds.size() - 1 ? " latest" : " earlier") + " n=" + std::to_string(x.n);
                }
            }
            else { std::printf("%s = skipped\n", line.c_str()); continue; }
        }
        else continue;
        std::printf("%s = %s | cap=%zu\n", line.c_str(), res.c_str(), p.capacity_left());
    }
    return 0;
}

int main()
{
    install_quiet_handlers();
    up().init();
    std::string header; if (!std::getline(std::cin, header)) return 1;
    std::istringstream hs(header); std::string mode; hs >> mode;
    if (mode == "ord") return run_ord(hs, header);
    if (mode == "small") return run_small(hs, header);
    if (mode == "unord") return run_unord(hs, header);
    if (mode == "lifo") return run_lifo(hs, header);
    if (mode == "lstack") return run_lstack(hs, header);
    if (mode == "unwind") return run_unwind(hs, header);
    if (mode == "pool")
    {
        std::string pt; std::size_t ns, bs; hs >> pt >> ns >> bs;
        if (pt == "node") return run_pool_t<memory_pool<node_pool, up_alloc>>(header, ns, bs);
        if (pt == "array") return run_pool_t<memory_pool<array_pool, up_alloc>>(header, ns, bs);
        return run_pool_t<memory_pool<small_node_pool, up_alloc>>(header, ns, bs);
    }
    return 2;
}
