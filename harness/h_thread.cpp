// C13: thread_safe_allocator under real threads with an instrumented mutex and an instrumented allocator.
// usage: h_thread <threads> <ops per thread> <seed> [stateless]
#include "hcommon.hpp"
#include "allocator_storage.hpp"
#include "threading.hpp"
#include <atomic>
#include <mutex>
#include <thread>
#include <random>
using namespace foonathan::memory;

static std::atomic<std::thread::id> g_owner{std::thread::id()};
static std::atomic<long> g_locks{0}, g_unlocks{0}, g_inside{0}, g_overlap{0}, g_nolock{0}, g_bad_unlock{0};
static std::atomic<long> g_per_member[16];
struct ev_t { int tid; char kind; };
static std::vector<ev_t> g_events; static std::atomic_flag g_evlock = ATOMIC_FLAG_INIT;
static thread_local int t_id = -1;
static void ev(char k) { while (g_evlock.test_and_set(std::memory_order_acquire)) {} g_events.push_back({t_id, k}); g_evlock.clear(std::memory_order_release); }

struct instr_mutex
{
    std::mutex m;
    void lock() { m.lock(); g_owner.store(std::this_thread::get_id()); ++g_locks; ev('L'); }
    bool try_lock() { if (!m.try_lock()) return false; g_owner.store(std::this_thread::get_id()); ++g_locks; ev('L'); return true; }
    void unlock() { if (g_owner.load() != std::this_thread::get_id()) ++g_bad_unlock; ev('U'); g_owner.store(std::thread::id()); ++g_unlocks; m.unlock(); }
};

static void pass(int member)
{
    ++g_per_member[member];
    if (g_owner.load() != std::this_thread::get_id()) ++g_nolock;
    if (g_inside.fetch_add(1) != 0) ++g_overlap;
    ev('E');
    for (volatile int i = 0; i < 200; ++i) {}
    if ((member & 3) == 0) std::this_thread::yield();
    ev('X');
    g_inside.fetch_sub(1);
}

static char g_buffer[1 << 16];
struct instr_alloc
{
    using is_stateful = std::true_type;
    long state = 0;
    void* allocate_node(std::size_t, std::size_t) { pass(0); ++state; return g_buffer; }
    void* allocate_array(std::size_t, std::size_t, std::size_t) { pass(1); ++state; return g_buffer; }
    void deallocate_node(void*, std::size_t, std::size_t) noexcept { pass(2); --state; }
    void deallocate_array(void*, std::size_t, std::size_t, std::size_t) noexcept { pass(3); --state; }
    std::size_t max_node_size() const { pass(4); return std::size_t(state) + 100; }
    std::size_t max_array_size() const { pass(5); return std::size_t(state) + 100; }
    std::size_t max_alignment() const { pass(6); return 16; }
    void* try_allocate_node(std::size_t, std::size_t) noexcept { pass(7); ++state; return g_buffer; }
    void* try_allocate_array(std::size_t, std::size_t, std::size_t) noexcept { pass(8); ++state; return g_buffer; }
    bool try_deallocate_node(void*, std::size_t, std::size_t) noexcept { pass(9); --state; return true; }
    bool try_deallocate_array(void*, std::size_t, std::size_t, std::size_t) noexcept { pass(10); --state; return true; }
};

// a stateless allocator: no mutex must be selected, no lock taken
static std::atomic<long> g_sl_calls{0};
struct stateless_alloc
{
    using is_stateful = std::false_type;
    void* allocate_node(std::size_t, std::size_t) { ++g_sl_calls; return g_buffer; }
    void deallocate_node(void*, std::size_t, std::size_t) noexcept { ++g_sl_calls; }
};

template <class Proxy> struct session { Proxy p; explicit session(Proxy&& q) : p(std::move(q)) {} };

// stateless allocators are used concurrently as they are (thread_safe_allocator takes no mutex for them): their shared
// bookkeeping must survive that -- balanced histories from many threads, then the process-wide leak counters must be zero at exit
#include "heap_allocator.hpp"
#include "new_allocator.hpp"
#include "malloc_allocator.hpp"
static void h_leak_print(const allocator_info& info, std::ptrdiff_t amount) noexcept { std::printf("LEAK %s %ld\n", info.name, long(amount)); std::fflush(stdout); }
template <class A> static void stateless_round(int nthreads, int iters)
{
    static_assert(std::is_same<detail::mutex_for<A, std::mutex>, no_mutex>::value, "a stateless allocator must not get a mutex");
    thread_safe_allocator<A> alloc{A{}};
    std::atomic<bool> go{false}; std::vector<std::thread> ts;
    for (int t = 0; t < nthreads; ++t)
        ts.emplace_back([&, t] { while (!go.load()) {} for (int i = 0; i < iters; ++i) { void* p = alloc.allocate_node(std::size_t(16 + (i + t) % 48), 8); alloc.deallocate_node(p, std::size_t(16 + (i + t) % 48), 8); } });
    go = true;
    for (auto& th : ts) th.join();
}
static int run_stateless(int nthreads, int iters)
{
    set_leak_handler(h_leak_print);
    stateless_round<heap_allocator>(nthreads, iters); stateless_round<new_allocator>(nthreads, iters); stateless_round<malloc_allocator>(nthreads, iters);
    std::printf("stateless threads=%d pairs=%d done\n", nthreads, 3 * nthreads * iters);
    return 0;     // the leak counters report at exit
}

int main(int argc, char** argv)
{
    if (argc > 3 && std::string(argv[1]) == "stateless") return run_stateless(std::atoi(argv[2]), std::atoi(argv[3]));
    int nthreads = std::atoi(argv[1]); int nops = std::atoi(argv[2]); unsigned seed = unsigned(std::atoi(argv[3]));
    using storage_t = allocator_storage<direct_storage<instr_alloc>, instr_mutex>;
    using ref_t = allocator_storage<reference_storage<instr_alloc>, instr_mutex>;
    static_assert(std::is_same<detail::mutex_for<instr_alloc, instr_mutex>, instr_mutex>::value, "stateful allocator must get the real mutex");
    std::printf("facts stateful_mutex=%d stateless_nomutex=%d stateless_threadsafe=%d stateful_threadsafe=%d\n",
                int(std::is_same<detail::mutex_for<instr_alloc, instr_mutex>, instr_mutex>::value),
                int(std::is_same<detail::mutex_for<stateless_alloc, instr_mutex>, no_mutex>::value),
                int(is_thread_safe_allocator<stateless_alloc>::value), int(is_thread_safe_allocator<instr_alloc>::value));
    storage_t storage{instr_alloc{}};

    std::vector<std::vector<int>> progs(static_cast<std::size_t>(nthreads));
    std::vector<std::thread> ts;
    for (int t = 0; t < nthreads; ++t)
        ts.emplace_back([&, t] {
            t_id = t; std::mt19937 rng(seed * 7919u + unsigned(t));
            for (int i = 0; i < nops; ++i)
            {
                int m = int(rng() % 15);
                const storage_t& cs = storage;
                switch (m)
                {
                case 0: storage.allocate_node(8, 8); progs[std::size_t(t)].push_back(1); break;
                case 1: storage.allocate_array(2, 8, 8); progs[std::size_t(t)].push_back(1); break;
                case 2: storage.deallocate_node(g_buffer, 8, 8); progs[std::size_t(t)].push_back(1); break;
                case 3: storage.deallocate_array(g_buffer, 2, 8, 8); progs[std::size_t(t)].push_back(1); break;
                case 4: cs.max_node_size(); progs[std::size_t(t)].push_back(1); break;
                case 5: cs.max_array_size(); progs[std::size_t(t)].push_back(1); break;
                case 6: cs.max_alignment(); progs[std::size_t(t)].push_back(1); break;
                case 7: storage.try_allocate_node(8, 8); progs[std::size_t(t)].push_back(1); break;
                case 8: storage.try_allocate_array(2, 8, 8); progs[std::size_t(t)].push_back(1); break;
                case 9: storage.try_deallocate_node(g_buffer, 8, 8); progs[std::size_t(t)].push_back(1); break;
                case 10: storage.try_deallocate_array(g_buffer, 2, 8, 8); progs[std::size_t(t)].push_back(1); break;
                case 11: { auto p = storage.lock(); int k = int(rng() % 4); for (int j = 0; j < k; ++j) p->allocate_node(8, 8); progs[std::size_t(t)].push_back(k); break; }
                case 12: { // the proxy is moved into a longer-lived object; the temporary dies first
                    session<decltype(storage.lock())> s(storage.lock()); int k = 1 + int(rng() % 3);
                    for (int j = 0; j < k; ++j) s.p->deallocate_node(g_buffer, 8, 8); progs[std::size_t(t)].push_back(k); break; }
                case 13: { auto p = cs.lock(); p->max_node_size(); progs[std::size_t(t)].push_back(1); break; }
                default: storage.allocate_node(16, 16); progs[std::size_t(t)].push_back(1); break;
                }
            }
        });
    for (auto& t : ts) t.join();
    // stateless: many threads, no lock may be taken
    long locks_before = g_locks.load();
    {
        allocator_storage<direct_storage<stateless_alloc>, instr_mutex> sl{stateless_alloc{}};
        std::vector<std::thread> t2;
        for (int t = 0; t < nthreads; ++t) t2.emplace_back([&] { for (int i = 0; i < 100; ++i) { sl.allocate_node(8, 8); sl.deallocate_node(g_buffer, 8, 8); } });
        for (auto& t : t2) t.join();
    }
    std::printf("result locks=%ld unlocks=%ld overlap=%ld nolock=%ld bad_unlock=%ld stateless_locks=%ld stateless_calls=%ld members=", g_locks.load(), g_unlocks.load(),
                g_overlap.load(), g_nolock.load(), g_bad_unlock.load(), g_locks.load() - locks_before, g_sl_calls.load());
    for (int i = 0; i < 11; ++i) std::printf("%ld,", g_per_member[i].load());
    std::printf("\n");
    for (int t = 0; t < nthreads; ++t) { std::printf("prog %d", t); for (int b : progs[std::size_t(t)]) if (b >= 0) std::printf(" %d", b); std::printf("\n"); }
    // events of the main storage only are comparable with the programs; the reference storage has its own mutex, its events are interleaved:
    // they were produced with tid but belong to another lock, so the trace is printed per lock domain only when no refstorage op happened
    std::printf("events");
    for (auto& e : g_events) std::printf(" %d%c", e.tid, e.kind);
    std::printf("\n");
    return 0;
}
