// Harness for memory_pool / memory_pool_collection through allocator_traits and composable_allocator_traits.
// First line: target.  pool <node|array|small> <node_size> <block_size> <grow|fixed> <low|high>
//                      coll <node|array|small> <identity|log2> <max_node> <block_size> <grow|fixed> <low|high>
// Ops: an size al | aa count size al | tn size al | ta count size al | dn h | da h | tdn h | tda h |
//      q | fail k | failfrom k | mv | ma | foreign_tdn off size al | destroy
#include "hcommon.hpp"
#include "memory_pool.hpp"
#include "memory_pool_collection.hpp"
#include "allocator_traits.hpp"
#include <memory>
#include <map>
using namespace foonathan::memory;
using namespace verif;

extern "C" void foonathan_memory_verif_insert(const void* list, void* mem, std::size_t size, std::size_t node_size)
{
    char buf[96];
    std::snprintf(buf, sizeof buf, " I %zu %zu %zu", node_size, up().off(mem), size);
    up().oplog += buf;
}

struct handle { void* p; std::size_t count, size, al; bool array; unsigned pat; bool live; };

struct target
{
    virtual ~target() {}
    virtual void* an(std::size_t size, std::size_t al) = 0;
    virtual void* aa(std::size_t c, std::size_t size, std::size_t al) = 0;
    virtual void* tn(std::size_t size, std::size_t al) = 0;
    virtual void* ta(std::size_t c, std::size_t size, std::size_t al) = 0;
    virtual void  dn(void* p, std::size_t size, std::size_t al) = 0;
    virtual void  da(void* p, std::size_t c, std::size_t size, std::size_t al) = 0;
    virtual bool  tdn(void* p, std::size_t size, std::size_t al) = 0;
    virtual bool  tda(void* p, std::size_t c, std::size_t size, std::size_t al) = 0;
    virtual std::string caps(std::size_t size) = 0;
    virtual void move_construct() = 0;
    virtual bool move_assign(bool used) = 0;      // returns whether the assigned-to object held an allocation
    virtual bool assign_into_moved_from() = 0;
    virtual void destroy() = 0;
    virtual void report_reserved() = 0;
    virtual bool reserve(std::size_t size, std::size_t capacity) = 0;     // collections only; false: the target has no reserve()
};

template <class A, class Make>
struct target_impl : target
{
    using traits = allocator_traits<A>;
    using ctraits = composable_allocator_traits<A>;
    A* a = nullptr; Make make; bool is_coll; bool high;
    std::vector<A*> graveyard;
    void* slot() { return high ? up().place_high(sizeof(A)) : up().place(sizeof(A)); }
    target_impl(Make m, bool coll, bool hi) : make(m), is_coll(coll), high(hi) { a = make(slot()); }
    void* an(std::size_t size, std::size_t al) override { return traits::allocate_node(*a, size, al); }
    void* aa(std::size_t c, std::size_t size, std::size_t al) override { return traits::allocate_array(*a, c, size, al); }
    void* tn(std::size_t size, std::size_t al) override { return ctraits::try_allocate_node(*a, size, al); }
    void* ta(std::size_t c, std::size_t size, std::size_t al) override { return ctraits::try_allocate_array(*a, c, size, al); }
    void dn(void* p, std::size_t size, std::size_t al) override { traits::deallocate_node(*a, p, size, al); }
    void da(void* p, std::size_t c, std::size_t size, std::size_t al) override { traits::deallocate_array(*a, p, c, size, al); }
    bool tdn(void* p, std::size_t size, std::size_t al) override { return ctraits::try_deallocate_node(*a, p, size, al); }
    bool tda(void* p, std::size_t c, std::size_t size, std::size_t al) override { return ctraits::try_deallocate_array(*a, p, c, size, al); }
    template <class T> static auto resv_impl(T& t, int) -> decltype(t.pool_capacity_left(1), void())
    {   // the free-list array a collection keeps at the start of its first block
        char b[96]; std::snprintf(b, sizeof b, " R %zu %zu", up().off(t.pools_.array_), t.pools_.no_elements_ * sizeof(*t.pools_.array_));
        up().oplog += b;
    }
    template <class T> static void resv_impl(T&, long) {}
    void report_reserved() override { resv_impl(*a, 0); }
    template <class T> static auto reserve_impl(T& t, std::size_t size, std::size_t cap, int) -> decltype(t.reserve(size, cap), bool()) { t.reserve(size, cap); return true; }
    template <class T> static bool reserve_impl(T&, std::size_t, std::size_t, long) { return false; }
    bool reserve(std::size_t size, std::size_t capacity) override { return reserve_impl(*a, size, capacity, 0); }
    template <class T> static auto caps_impl(T& t, std::size_t size, int) -> decltype(t.pool_capacity_left(size), std::string())
    {
        char b[128];
        std::size_t pc = size <= t.max_node_size() && size > 0 ? t.pool_capacity_left(size) : 0;
        std::snprintf(b, sizeof b, "pcap=%zu cap=%zu next=%zu maxn=%zu", pc, t.capacity_left(), t.next_capacity(), t.max_node_size());
        return b;
    }
    template <class T> static std::string caps_impl(T& t, std::size_t, long)
    {
        char b[128];
        std::snprintf(b, sizeof b, "cap=%zu next=%zu ns=%zu", t.capacity_left(), t.next_capacity(), t.node_size());
        return b;
    }
    std::string caps(std::size_t size) override { return caps_impl(*a, size, 0); }
    void move_construct() override { A* n = new (slot()) A(std::move(*a)); graveyard.push_back(a); a = n; }
    bool move_assign(bool used) override
    {
        A* n = make(slot()); bool held = false;
        if (used) { try { void* p = traits::allocate_node(*n, 1, 1); held = p != nullptr; } catch (...) {} }
        *n = std::move(*a); graveyard.push_back(a); a = n; return held;
    }
    bool assign_into_moved_from() override
    {
        if (graveyard.empty()) return false;
        A* g = graveyard.back(); graveyard.pop_back();
        A* f = make(slot()); *g = std::move(*f); g->~A(); graveyard.push_back(f); return true;
    }
    void destroy() override { if (a) a->~A(); a = nullptr; for (auto g : graveyard) g->~A(); graveyard.clear(); }
};

template <class A, class Make>
target* mk(Make m, bool coll, bool hi) { return new target_impl<A, Make>(m, coll, hi); }

template <class PT>
target* make_pool(std::size_t ns, std::size_t bs, const std::string& src, bool hi)
{
    if (src == "grow") { using A = memory_pool<PT, up_alloc>; return mk<A>([=](void* s) { return new (s) A(ns, bs); }, false, hi); }
    // "const": blocks of one size, as many as are asked for (the shape of static_block_allocator / virtual_block_allocator)
    if (src == "const") { using A = memory_pool<PT, growing_block_allocator<up_alloc, 1, 1>>; return mk<A>([=](void* s) { return new (s) A(ns, bs); }, false, hi); }
    using A = memory_pool<PT, fixed_block_allocator<up_alloc>>; return mk<A>([=](void* s) { return new (s) A(ns, bs); }, false, hi);
}
template <class PT, class BD>
target* make_coll(std::size_t mx, std::size_t bs, const std::string& src, bool hi)
{
    if (src == "grow") { using A = memory_pool_collection<PT, BD, up_alloc>; return mk<A>([=](void* s) { return new (s) A(mx, bs); }, true, hi); }
    if (src == "const") { using A = memory_pool_collection<PT, BD, growing_block_allocator<up_alloc, 1, 1>>; return mk<A>([=](void* s) { return new (s) A(mx, bs); }, true, hi); }
    using A = memory_pool_collection<PT, BD, fixed_block_allocator<up_alloc>>; return mk<A>([=](void* s) { return new (s) A(mx, bs); }, true, hi);
}

static bool small_list = false, is_collection = false, log2_buckets_ = false; static std::size_t pool_list_ns = 0;
static std::size_t list_ns(std::size_t size)
{
    if (!is_collection) return pool_list_ns;
    std::size_t me = small_list ? 1 : 8;
    if (!log2_buckets_) return size < me ? me : size;
    std::size_t p = 1; while (p < size) p <<= 1; return p < me ? me : p;
}

int main()
{
    install_quiet_handlers();
    auto& U = up(); U.init();
    std::string line; std::getline(std::cin, line);
    std::istringstream hs(line); std::string kind, pt, bd, src, pos; std::size_t a1 = 0, a2 = 0;
    target* t = nullptr;
    hs >> kind >> pt;
    small_list = pt == "small"; is_collection = kind == "coll";
    const char* ex = nullptr;
    try
    {
        if (kind == "pool")
        {
            hs >> a1 >> a2 >> src >> pos; bool hi = pos == "high";
            pool_list_ns = small_list ? a1 : (a1 < 8 ? 8 : a1);
            t = pt == "node" ? make_pool<node_pool>(a1, a2, src, hi) : pt == "array" ? make_pool<array_pool>(a1, a2, src, hi) : make_pool<small_node_pool>(a1, a2, src, hi);
        }
        else
        {
            hs >> bd >> a1 >> a2 >> src >> pos; bool hi = pos == "high";
            log2_buckets_ = bd == "log2";
            if (bd == "identity")
                t = pt == "node" ? make_coll<node_pool, identity_buckets>(a1, a2, src, hi) : pt == "array" ? make_coll<array_pool, identity_buckets>(a1, a2, src, hi) : make_coll<small_node_pool, identity_buckets>(a1, a2, src, hi);
            else
                t = pt == "node" ? make_coll<node_pool, log2_buckets>(a1, a2, src, hi) : pt == "array" ? make_coll<array_pool, log2_buckets>(a1, a2, src, hi) : make_coll<small_node_pool, log2_buckets>(a1, a2, src, hi);
        }
    }
    catch (...) { ex = classify_current(); }
    if (ex) { std::printf("%s = throw %s |%s |\n", line.c_str(), ex, U.take().c_str()); return 0; }
    {
        t->report_reserved();
        std::string ev = U.take();
        std::printf("%s = ok |%s | %s dbl=%d\n", line.c_str(), ev.c_str(), t->caps(1).c_str(), FOONATHAN_MEMORY_DEBUG_DOUBLE_DEALLOC_CHECK);
    }
    std::fflush(stdout);
    std::vector<handle> hs_;
    unsigned next_pat = 17;
    auto fillpat = [&](handle& h) { auto q = static_cast<unsigned char*>(h.p); std::size_t n = h.count * h.size; for (std::size_t i = 0; i < n; ++i) q[i] = (unsigned char)(h.pat + i * 7); };
    auto checkpat = [&](handle& h, const char* when) {
        auto q = static_cast<unsigned char*>(h.p); std::size_t n = h.count * h.size;
        for (std::size_t i = 0; i < n; ++i) if (q[i] != (unsigned char)(h.pat + i * 7)) { std::printf("corrupt h=%zu off=%zu at=%zu %s\n", std::size_t(&h - &hs_[0]), U.off(h.p), i, when); return false; }
        return true;
    };
    auto sweep = [&](const char* when) { for (auto& h : hs_) if (h.live) checkpat(h, when); };
    long opno = 0; bool last_null = false; long drain_left = 0;
    std::vector<std::string> pending;
    while (true)
    {
        if (!pending.empty()) { line = pending.front(); pending.erase(pending.begin()); }
        else if (!std::getline(std::cin, line)) break;
        std::istringstream is(line); std::string op; is >> op;
        if (op.empty()) continue;
        if (op == "drain")
        {   // single-node try_ requests until the allocator refuses (rewritten into ordinary tn lines)
            std::size_t size = 8; is >> size;
            if (drain_left == 0) { drain_left = 6000; last_null = false; }
            if (last_null || --drain_left == 0) { drain_left = 0; last_null = false; continue; }
            char b[64]; std::snprintf(b, sizeof b, "tn %zu 1", size);
            pending.insert(pending.begin(), line); pending.insert(pending.begin(), std::string(b));
            continue;
        }
        if (op == "d" || op == "dall")
        {   // selector ops are rewritten into canonical dn/da/tdn/tda lines
            std::vector<std::size_t> livei;
            for (std::size_t i = 0; i < hs_.size(); ++i) if (hs_[i].live) livei.push_back(i);
            if (livei.empty()) continue;
            auto canon = [&](std::size_t i, bool tr) { char b[64]; std::snprintf(b, sizeof b, "%s%s %zu", tr ? "td" : "d", hs_[i].array ? "a" : "n", i); return std::string(b); };
            if (op == "d") { std::size_t sel; std::string tr; is >> sel >> tr; pending.insert(pending.begin(), canon(livei[sel % livei.size()], tr == "t")); }
            else
            {
                std::string order; is >> order; std::vector<std::string> v;
                if (order == "rev") for (std::size_t k = livei.size(); k-- > 0;) v.push_back(canon(livei[k], false));
                else if (order == "alt") { for (std::size_t k = 0; k < livei.size(); k += 2) v.push_back(canon(livei[k], false)); for (std::size_t k = 1; k < livei.size(); k += 2) v.push_back(canon(livei[k], true)); }
                else if (order == "half") for (std::size_t k = 0; k < livei.size(); k += 2) v.push_back(canon(livei[k], false));
                else for (auto i : livei) v.push_back(canon(i, false));
                pending.insert(pending.begin(), v.begin(), v.end());
            }
            continue;
        }
        ++opno;
        long oom0 = hc().oom, bad0 = hc().bad_size;
        std::string res; std::size_t qsize = 1;
        if (op == "an" || op == "tn" || op == "aa" || op == "ta")
        {
            bool arr = op[1] == 'a'; std::size_t c = 1, size, al;
            if (arr) is >> c; is >> size >> al; qsize = size;
            void* p = nullptr; const char* e = nullptr;
            try { p = op == "an" ? t->an(size, al) : op == "tn" ? t->tn(size, al) : op == "aa" ? t->aa(c, size, al) : t->ta(c, size, al); }
            catch (...) { e = classify_current(); }
            char b[160];
            if (e) std::snprintf(b, sizeof b, "throw %s oom=%ld bad=%ld", e, hc().oom - oom0, hc().bad_size - bad0);
            else if (!p) std::snprintf(b, sizeof b, "null");
            last_null = !e && !p;
            if (e || !p) {}
            else
            {
                handle h{p, c, size, al, arr, next_pat, true}; next_pat = next_pat * 29 + 3;
                std::snprintf(b, sizeof b, "ok %zu h%zu", U.off(p), hs_.size());
#if FOONATHAN_MEMORY_DEBUG_FILL
                { auto q = static_cast<unsigned char*>(p); for (std::size_t i = 0; i < c * size; ++i) if (q[i] != 0xCD) { std::printf("nofill off=%zu at=%zu\n", U.off(p), i); break; } }
#endif
                hs_.push_back(h); fillpat(hs_.back());
            }
            res = b;
        }
        else if (op == "dn" || op == "da" || op == "tdn" || op == "tda")
        {
            std::size_t hi; is >> hi;
            if (hi >= hs_.size() || !hs_[hi].live) { std::printf("%s = skipped\n", line.c_str()); continue; }
            handle& h = hs_[hi]; qsize = h.size;
            checkpat(h, "at-release");
            bool r = true;
            if (op == "dn") t->dn(h.p, h.size, h.al); else if (op == "da") t->da(h.p, h.count, h.size, h.al);
            else if (op == "tdn") r = t->tdn(h.p, h.size, h.al); else r = t->tda(h.p, h.count, h.size, h.al);
            char b[160]; std::snprintf(b, sizeof b, "%s %zu %s %zu %zu %zu", r ? "true" : "false", U.off(h.p), h.array ? "arr" : "node", h.count, h.size, h.al);
            if (r) h.live = false;
#if FOONATHAN_MEMORY_DEBUG_FILL
            if (r)
            {   // released memory carries 0xDD except for the bytes the list reuses for its links
                auto q = static_cast<unsigned char*>(h.p); std::size_t n = (h.array ? h.count : 1) * h.size;
                std::size_t lns = list_ns(h.size), link = small_list ? 1 : 8;
                for (std::size_t i = 0; i < n; ++i) if (i % lns >= link && q[i] != 0xDD) { std::printf("nofreedfill off=%zu at=%zu\n", U.off(h.p), i); break; }
            }
#endif
            res = b;
        }
        else if (op == "foreign_tdn")
        {
            std::size_t off, size, al; is >> off >> size >> al; qsize = size;
            bool r = t->tdn(U.base + off, size, al);
            res = r ? "true" : "false";
        }
        else if (op == "q") { std::size_t s = 1; is >> s; qsize = s ? s : 1; res = "q"; }
        else if (op == "rs")
        {   // memory_pool_collection::reserve(node_size, capacity)
            std::size_t size = 8, cap = 0; is >> size >> cap; qsize = size; const char* e = nullptr; bool done = false;
            try { done = t->reserve(size, cap); } catch (...) { e = classify_current(); }
            res = e ? std::string("throw ") + e : done ? "reserved" : "none";
        }
        else if (op == "fail") { long k; is >> k; U.fail_at = U.calls + k; res = "set"; }
        else if (op == "failfrom") { long k; is >> k; U.fail_from = k < 0 ? -1 : U.calls + k; res = "set"; }
        else if (op == "mv") { t->move_construct(); res = "moved reports=" + leak_list(); }
        else if (op == "ma") { std::string w; is >> w; U.fail_at = -1; bool held = t->move_assign(w == "used"); res = "assigned reports=" + leak_list() + (held ? " held=1" : " held=0"); }
        else if (op == "mfa") { U.fail_at = -1; res = t->assign_into_moved_from() ? "done reports=" + leak_list() : "skipped"; }
        else if (op == "sweep") { sweep("sweep"); res = "swept"; }
        else if (op == "destroy") { sweep("before-destroy"); t->destroy(); std::printf("destroy = ok |%s | leaks=%ld amounts=%s\n", U.take().c_str(), hc().leak, leak_list().c_str()); break; }
        else { std::printf("? %s\n", line.c_str()); continue; }
        std::string ev = U.take();
        std::printf("%s = %s |%s | %s\n", line.c_str(), res.c_str(), ev.c_str(), t->caps(qsize).c_str());
        if (opno % 16 == 0) sweep("periodic");
        std::fflush(stdout);
    }
    std::printf("end live_blocks=%zu errors=%ld stale_writes=%zu\n", U.live_count(), U.errors, U.stale_writes());
    return 0;
}
