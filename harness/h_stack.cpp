// Harness for memory_stack<>: stack <block_size> <grow|fixed>
// ops: a size al | t size al | top | unwind k | shrink | q | fail k | mv | ma | badunwind kind | destroy
#include "hcommon.hpp"
#include <deque>
#include "memory_stack.hpp"
#include <csignal>
#include <unistd.h>
using namespace foonathan::memory;
using namespace verif;

struct live_t { std::size_t off, size; unsigned pat; };

static void h_invalid(const allocator_info&, const void*) noexcept { std::printf("HANDLER invalid_pointer\n"); std::fflush(stdout); _exit(41); }
static void on_abort(int) { std::printf("ABORT\n"); std::fflush(stdout); _exit(42); }

template <class Stack>
int run_script(std::size_t block_size, const std::string& header)
{
    auto& U = up();
    Stack* st = nullptr;
    void* place = U.place(sizeof(Stack));
    try { st = new (place) Stack(block_size); }
    catch (...) { std::printf("%s = throw %s |%s |\n", header.c_str(), classify_current(), U.take().c_str()); return 0; }
    auto caps = [&]() { char b[128]; std::snprintf(b, sizeof b, "cap=%zu next=%zu", st->capacity_left(), st->next_capacity()); return std::string(b); };
    std::printf("%s = ok |%s | %s\n", header.c_str(), U.take().c_str(), caps().c_str());
    std::vector<live_t> live; unsigned next_pat = 5;
    struct mk { typename Stack::marker m; std::size_t nlive; };
    std::vector<mk> markers;
    std::vector<Stack*> graveyard;
    struct th { std::size_t c, size, al; bool arr; };
    std::vector<th> thandles;
    auto check = [&](const char* when) {
        for (auto& l : live) { auto p = reinterpret_cast<unsigned char*>(U.base + l.off);
            for (std::size_t i = 0; i < l.size; ++i) if (p[i] != (unsigned char)(l.pat + 3 * i)) { std::printf("corrupt off=%zu size=%zu at=%zu %s\n", l.off, l.size, i, when); break; } }
    };
    std::string line;
    // raii2: an unwind guard that was moved from is destroyed BEFORE its target, with allocations made in between; the guard
    // that holds the marker now is destroyed last.  Expressed as ordinary lines (top / a / a / unwind) so that model and oracle
    // see what a correct library does: the moved-from guard does nothing.
    std::deque<std::string> pending; memory_stack_raii_unwind<Stack>* g_source = nullptr; memory_stack_raii_unwind<Stack>* g_target = nullptr;
    while (!pending.empty() || std::getline(std::cin, line))
    {
        if (!pending.empty()) { line = pending.front(); pending.pop_front(); }
        if (line == "@delsource") { delete g_source; g_source = nullptr; continue; }
        bool by_guard = false;
        if (line == "@deltarget") { by_guard = true; line = "unwind " + std::to_string(markers.size() - 1); }
        std::istringstream is(line); std::string op; is >> op;
        if (op.empty()) continue;
        if (op == "raii2")
        {
            if (g_target || !pending.empty()) { std::printf("%s = skipped\n", line.c_str()); continue; }
            g_target = new memory_stack_raii_unwind<Stack>(*st, st->top());
            g_source = new memory_stack_raii_unwind<Stack>(*st, st->top());
            *g_target = std::move(*g_source);
            pending = {"top", "a 40 8", "@delsource", "a 24 8", "@deltarget"};
            continue;
        }
        if (op[0] == '#') { std::printf("%s\n", line.c_str()); continue; }
        long oom0 = hc().oom, bad0 = hc().bad_size;
        std::string res;
        if (op == "a" || op == "t")
        {
            std::size_t size, al; is >> size >> al;
            void* p = nullptr; const char* e = nullptr;
            try { p = op == "a" ? st->allocate(size, al) : st->try_allocate(size, al); }
            catch (...) { e = classify_current(); }
            char b[160];
            if (e) std::snprintf(b, sizeof b, "throw %s oom=%ld bad=%ld", e, hc().oom - oom0, hc().bad_size - bad0);
            else if (!p) std::snprintf(b, sizeof b, "null");
            else
            {
                std::snprintf(b, sizeof b, "ok %zu", U.off(p));
                auto q = static_cast<unsigned char*>(p);
#if FOONATHAN_MEMORY_DEBUG_FILL
                for (std::size_t i = 0; i < size; ++i) if (q[i] != 0xCD) { std::printf("nofill off=%zu at=%zu\n", U.off(p), i); break; }
#endif
                live_t l{U.off(p), size, next_pat}; next_pat = next_pat * 13 + 1;
                for (std::size_t i = 0; i < size; ++i) q[i] = (unsigned char)(l.pat + 3 * i);
                live.push_back(l);
            }
            res = b;
        }
        else if (op == "an" || op == "aa")
        {   // through allocator_traits (leak accounting)
            using traits = allocator_traits<Stack>;
            std::size_t c = 1, size, al; if (op == "aa") is >> c; is >> size >> al;
            void* p = nullptr; const char* e = nullptr;
            try { p = op == "an" ? traits::allocate_node(*st, size, al) : traits::allocate_array(*st, c, size, al); } catch (...) { e = classify_current(); }
            char b[160];
            if (e) std::snprintf(b, sizeof b, "throw %s", e);
            else { std::snprintf(b, sizeof b, "ok %zu h%zu", U.off(p), thandles.size()); thandles.push_back({c, size, al, op == "aa"}); }
            res = b;
        }
        else if (op == "dn" || op == "da")
        {
            using traits = allocator_traits<Stack>;
            std::size_t k; is >> k; if (k >= thandles.size()) { std::printf("%s = skipped\n", line.c_str()); continue; }
            auto& h = thandles[k];
            if (h.arr) traits::deallocate_array(*st, nullptr, h.c, h.size, h.al); else traits::deallocate_node(*st, nullptr, h.size, h.al);
            res = "true";
        }
        else if (op == "top")
        {
            auto m = st->top();
            // the library's own comparison operators against every earlier marker that is still valid: older <= newer
            for (std::size_t i = 0; i < markers.size(); ++i)
            {
                auto& e = markers[i].m;
                bool ok = (e < m || e == m) && !(m < e) && (e <= m) && (m >= e) && !(e > m) && ((e == m) == !(e != m));
                if (!ok) std::printf("marker_order_violation older=m%zu (index %zu, top %zu) newer=m%zu (index %zu, top %zu): < %d > %d <= %d >= %d reversed< %d\n", i, e.index, U.off(e.top), markers.size(), m.index, U.off(m.top), int(e < m), int(e > m), int(e <= m), int(e >= m), int(m < e));
            }
            markers.push_back({m, live.size()});
            char b[160]; std::snprintf(b, sizeof b, "m%zu %zu %zu %zu", markers.size() - 1, m.index, U.off(m.top), U.off(m.end));
            // ordering of markers against all earlier ones still valid on this stack is checked by the replay
            res = b;
        }
        else if (op == "unwind")
        {
            std::size_t k; is >> k;
            if (k >= markers.size()) { std::printf("%s = skipped\n", line.c_str()); continue; }
            check("before-unwind");
            if (by_guard) { delete g_target; g_target = nullptr; } else
            st->unwind(markers[k].m);
            live.resize(std::min(live.size(), markers[k].nlive));
            markers.erase(markers.begin() + long(k) + 1, markers.end());
            check("after-unwind");
            char b[64]; std::snprintf(b, sizeof b, "done m%zu", k); res = b;
        }
        else if (op == "raii")
        {   // two unwind guards on markers k1 < k2; the inner guard is move-assigned from the outer one: the assignment unwinds to the
            // inner marker (logged as "unwind k2"), the guard that is left unwinds to the outer marker at the end of the scope
            // (logged as "unwind k1")
            std::size_t k1, k2; is >> k1 >> k2;
            if (markers.size() < 2) { std::printf("%s = skipped\n", line.c_str()); continue; }
            k1 %= markers.size() - 1; k2 = k1 + 1 + k2 % (markers.size() - 1 - k1);
            check("before-unwind");
            {
                memory_stack_raii_unwind<Stack> outer(*st, markers[k1].m), inner(*st, markers[k2].m);
                inner = std::move(outer);
                live.resize(std::min(live.size(), markers[k2].nlive));
                markers.erase(markers.begin() + long(k2) + 1, markers.end());
                check("after-unwind");
                std::string ev1 = U.take();
                std::printf("unwind %zu = done m%zu |%s | %s\n", k2, k2, ev1.c_str(), caps().c_str());
            }
            live.resize(std::min(live.size(), markers[k1].nlive));
            markers.erase(markers.begin() + long(k1) + 1, markers.end());
            check("after-unwind");
            char b[64]; std::snprintf(b, sizeof b, "done m%zu", k1); res = b;
            line = "unwind " + std::to_string(k1);
        }
        else if (op == "shrink") { st->shrink_to_fit(); res = "done"; }
        else if (op == "q") res = "q";
        else if (op == "fail") { long k; is >> k; U.fail_at = U.calls + k; res = "set"; }
        else if (op == "mv") { Stack* n = new (U.place(sizeof(Stack))) Stack(std::move(*st)); graveyard.push_back(st); st = n; res = "moved"; }
        else if (op == "ma")
        {
            std::string w; is >> w; U.fail_at = -1;
            Stack* n = new (U.place(sizeof(Stack))) Stack(block_size);
            if (w == "used") allocator_traits<Stack>::allocate_node(*n, 1, 1);
            *n = std::move(*st); graveyard.push_back(st); st = n; markers.clear(); live.clear(); res = "assigned";
        }
        else if (op == "mfa")
        {
            U.fail_at = -1;
            if (graveyard.empty()) res = "skipped";
            else { Stack* g = graveyard.back(); graveyard.pop_back(); Stack* f = new (U.place(sizeof(Stack))) Stack(block_size); *g = std::move(*f); g->~Stack(); graveyard.push_back(f); res = "done"; }
        }
        else if (op == "destroy") { check("before-destroy"); st->~Stack(); for (auto g : graveyard) g->~Stack(); std::printf("destroy = ok |%s | leaks=%ld amounts=%s\n", U.take().c_str(), hc().leak, leak_list().c_str()); break; }
        else { std::printf("? %s\n", line.c_str()); continue; }
        std::string ev = U.take();
        std::printf("%s = %s |%s | %s\n", line.c_str(), res.c_str(), ev.c_str(), caps().c_str());
        std::fflush(stdout);
    }
    std::printf("end live_blocks=%zu errors=%ld stale_writes=%zu\n", U.live_count(), U.errors, U.stale_writes());
    return 0;
}

int main()
{
    install_quiet_handlers();
    up().init();
    std::string line; std::getline(std::cin, line);
    std::istringstream is(line); std::string kind, src, dir; std::size_t bs; is >> kind >> bs >> src >> dir;
    if (dir == "down") up().descending = true;
    if (src == "fixed") return run_script<memory_stack<fixed_block_allocator<up_alloc>>>(bs, line);
    return run_script<memory_stack<up_alloc>>(bs, line);
}
