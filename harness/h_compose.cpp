// C08/C09 harness.
//  mode "fwd": wrapper compositions over logging leaves; input lines: "<comp id> <op> <args...>", op in
//      an size al | aa count size al | dn size al | da count size al | tan/taa/tdn/tda (composable) | std n | res bytes al | uniq | big
//  mode "own": sibling ownership tests;  mode "fb": nested fallback routing
#include "hcommon.hpp"
#include "allocator_storage.hpp"
#include "aligned_allocator.hpp"
#include "tracking.hpp"
#include "segregator.hpp"
#include "fallback_allocator.hpp"
#include "std_allocator.hpp"
#include "memory_resource_adapter.hpp"
#include "smart_ptr.hpp"
#include "threading.hpp"
#include "memory_pool.hpp"
#include "memory_pool_collection.hpp"
#include "memory_stack.hpp"
#include "iteration_allocator.hpp"
#include "static_allocator.hpp"
#include <mutex>
#include <vector>
using namespace foonathan::memory;
using namespace verif;

static std::string g_log;
static char g_arena[1 << 21]; static std::size_t g_bump = 0;
struct log_leaf
{
    using is_stateful = std::true_type;
    int id; bool refuse = false;   // refuse: the composable functions fail (null / false)
    explicit log_leaf(int i = 0, bool r = false) : id(i), refuse(r) {}
    void* take(std::size_t bytes, std::size_t al) { g_bump = (g_bump + al - 1) / al * al; if (g_bump + bytes > sizeof g_arena) g_bump = 0; void* p = g_arena + g_bump; g_bump += bytes ? bytes : 1; return p; }
    void rec(const char* op, std::size_t c, std::size_t s, std::size_t a) { char b[128]; std::snprintf(b, sizeof b, " L%d:%s:%zu:%zu:%zu", id, op, c, s, a); g_log += b; }
    void* allocate_node(std::size_t s, std::size_t a) { rec("an", 1, s, a); return take(s, a > 4096 ? 4096 : a); }
    void* allocate_array(std::size_t c, std::size_t s, std::size_t a) { rec("aa", c, s, a); return take(c * s, a > 4096 ? 4096 : a); }
    void deallocate_node(void*, std::size_t s, std::size_t a) noexcept { rec("dn", 1, s, a); }
    void deallocate_array(void*, std::size_t c, std::size_t s, std::size_t a) noexcept { rec("da", c, s, a); }
    void* try_allocate_node(std::size_t s, std::size_t a) noexcept { rec("tan", 1, s, a); return refuse ? nullptr : take(s, a > 4096 ? 4096 : a); }
    void* try_allocate_array(std::size_t c, std::size_t s, std::size_t a) noexcept { rec("taa", c, s, a); return refuse ? nullptr : take(c * s, a > 4096 ? 4096 : a); }
    bool try_deallocate_node(void*, std::size_t s, std::size_t a) noexcept { rec("tdn", 1, s, a); return !refuse; }
    bool try_deallocate_array(void*, std::size_t c, std::size_t s, std::size_t a) noexcept { rec("tda", c, s, a); return !refuse; }
    std::size_t max_node_size() const { return 256; }
    std::size_t max_array_size() const { return std::size_t(1) << 30; }
    std::size_t max_alignment() const { return std::size_t(1) << 20; }
};

struct log_tracker
{
    void rec(const char* op, std::size_t c, std::size_t s, std::size_t a) { char b[128]; std::snprintf(b, sizeof b, " T:%s:%zu:%zu:%zu", op, c, s, a); g_log += b; }
    void on_node_allocation(void*, std::size_t s, std::size_t a) noexcept { rec("an", 1, s, a); }
    void on_array_allocation(void*, std::size_t c, std::size_t s, std::size_t a) noexcept { rec("aa", c, s, a); }
    void on_node_deallocation(void*, std::size_t s, std::size_t a) noexcept { rec("dn", 1, s, a); }
    void on_array_deallocation(void*, std::size_t c, std::size_t s, std::size_t a) noexcept { rec("da", c, s, a); }
};

#ifndef H_C08   // the forwarding compositions (C09) are left out of the C08 binary so that each check depends only on its own wrappers
// run one raw-allocator op through a composition
template <bool TryToo = true, class A>
static void raw_op(A& a, const std::string& op, std::size_t c, std::size_t s, std::size_t al)
{
    using tr = allocator_traits<A>; using ctr = composable_allocator_traits<A>;
    static char dummy[64];
    if (op == "an") tr::allocate_node(a, s, al);
    else if (op == "aa") tr::allocate_array(a, c, s, al);
    else if (op == "dn") tr::deallocate_node(a, dummy, s, al);
    else if (op == "da") tr::deallocate_array(a, dummy, c, s, al);
    else if constexpr (TryToo && is_composable_allocator<A>::value)
    {
        if (op == "tan") ctr::try_allocate_node(a, s, al);
        else if (op == "taa") ctr::try_allocate_array(a, c, s, al);
        else if (op == "tdn") ctr::try_deallocate_node(a, dummy, s, al);
        else if (op == "tda") ctr::try_deallocate_array(a, dummy, c, s, al);
    }
    else g_log += " notcomposable";
}

template <std::size_t N> struct Obj { char c[N]; };
struct alignas(32) Obj32 { char c[64]; };
struct Base { virtual ~Base() {} };
struct BigDerived : Base { char payload[70000]; };
struct alignas(64) WideDerived : Base { char payload[40]; };   // alignof(Derived) > alignof(Base): the polymorphic deleter must remember it

template <class T, class A> static void std_op(A& leaf_like, std::size_t n)
{
    std_allocator<T, A> sa(leaf_like);
    T* p = sa.allocate(n);
    sa.deallocate(p, n);
}

static int run_fwd()
{
    log_leaf l0(0), l1(1);
    aligned_allocator<log_leaf> c1(32, log_leaf(0));
    tracked_allocator<log_tracker, log_leaf> c2(log_tracker{}, log_leaf(0));
    allocator_storage<direct_storage<log_leaf>, no_mutex> c3{log_leaf(0)};
    allocator_reference<log_leaf> c4(l0);
    any_allocator_reference c5(l0);
    thread_safe_allocator<log_leaf> c6{log_leaf(0)};
    auto c7 = make_segregator(threshold(64, log_leaf(0)), log_leaf(1));
    aligned_allocator<tracked_allocator<log_tracker, log_leaf>> c8(16, tracked_allocator<log_tracker, log_leaf>(log_tracker{}, log_leaf(0)));
    tracked_allocator<log_tracker, aligned_allocator<log_leaf>> c9(log_tracker{}, aligned_allocator<log_leaf>(64, log_leaf(0)));
    auto c10 = make_segregator(threshold(100, aligned_allocator<log_leaf>(8, log_leaf(0))), tracked_allocator<log_tracker, log_leaf>(log_tracker{}, log_leaf(1)));
    allocator_storage<reference_storage<aligned_allocator<log_leaf>>, std::mutex> c11(c1);
    // depth 3
    using seg_t = binary_segregator<threshold_segregatable<log_leaf>, log_leaf>;
    aligned_allocator<tracked_allocator<log_tracker, seg_t>> c12(16, tracked_allocator<log_tracker, seg_t>(log_tracker{}, make_segregator(threshold(64, log_leaf(0)), log_leaf(1))));
    thread_safe_allocator<aligned_allocator<tracked_allocator<log_tracker, log_leaf>>> c13{aligned_allocator<tracked_allocator<log_tracker, log_leaf>>(128, tracked_allocator<log_tracker, log_leaf>(log_tracker{}, log_leaf(0)))};
    // trackers over a leaf whose composable functions fail: the tracker must stay silent
    tracked_allocator<log_tracker, log_leaf> c14(log_tracker{}, log_leaf(0, true));
    aligned_allocator<tracked_allocator<log_tracker, log_leaf>> c15(32, tracked_allocator<log_tracker, log_leaf>(log_tracker{}, log_leaf(0, true)));
    // wrappers that were move-assigned / move-constructed before use: their parameters travel with them
    aligned_allocator<log_leaf> c16(8, log_leaf(1)); c16 = aligned_allocator<log_leaf>(64, log_leaf(0));
    aligned_allocator<log_leaf> t17(128, log_leaf(0)); aligned_allocator<log_leaf> c17(std::move(t17));
    tracked_allocator<log_tracker, log_leaf> c18(log_tracker{}, log_leaf(1)); c18 = tracked_allocator<log_tracker, log_leaf>(log_tracker{}, log_leaf(0));
    std::string line;
    while (std::getline(std::cin, line))
    {
        std::istringstream is(line); int comp; std::string op; std::size_t a = 0, b = 0, c = 0; is >> comp >> op >> a >> b >> c;
        g_log.clear();
        std::size_t cnt = 1, size = a, al = b;
        if (op == "aa" || op == "da" || op == "taa" || op == "tda") { cnt = a; size = b; al = c; }
        if (op == "std")
        {
            switch (comp) { case 1: std_op<Obj<1>>(l0, a); break; case 2: std_op<Obj<24>>(l0, a); break; case 3: std_op<Obj32>(l0, a); break; case 4: std_op<Obj<70000>>(l0, a); break; default: std_op<long>(c1, a); }
        }
        else if (op == "res")
        {
            memory_resource_adapter<log_leaf> r(log_leaf(0));
            void* p = r.allocate(a, b); r.deallocate(p, a, b);
        }
        else if (op == "mra")
        {   // the other direction: memory_resource_allocator over a recording resource (node requests, and arrays through the traits)
            struct log_resource : memory_resource
            {
                log_leaf l{9};
                void* do_allocate(std::size_t bytes, std::size_t al) override { l.rec("an", 1, bytes, al); return l.take(bytes, al > 4096 ? 4096 : al); }
                void do_deallocate(void*, std::size_t bytes, std::size_t al) override { l.rec("dn", 1, bytes, al); }
                bool do_is_equal(const memory_resource& o) const noexcept override { return this == &o; }
            } res;
            memory_resource_allocator mra(&res);
            void* p = mra.allocate_node(a, b); mra.deallocate_node(p, a, b);
            using tr = allocator_traits<memory_resource_allocator>;
            void* q = tr::allocate_array(mra, 3, a, b); tr::deallocate_array(mra, q, 3, a, b);
            std_allocator<Obj<24>, memory_resource_allocator> sa(mra); auto* o = sa.allocate(2); sa.deallocate(o, 2);
        }
        else if (op == "uniq")
        {
            { auto p = allocate_unique<Obj<24>>(l0); }
            { auto p = allocate_unique<Obj<24>[]>(l0, a ? a : 1); }
            { unique_base_ptr<Base, log_leaf> q(allocate_unique<BigDerived>(l0)); }
            { unique_base_ptr<Base, log_leaf> q(allocate_unique<WideDerived>(l0)); }
            { auto sp = allocate_shared<Obj<40>>(l0); }
            // a constructor that throws although the type's default constructor cannot: the node is released all the same
            { struct Picky { char c[24]; Picky() noexcept {} explicit Picky(int) { throw 7; } };
              try { auto p = allocate_unique<Picky>(l0, 1); } catch (int) {}
              try { auto p = allocate_unique<Picky>(any_allocator{}, l0, 1); } catch (int) {} }
            // an array whose third element throws: what was asked for as an array goes back as the same array
            { static int built; struct Third { char c[24]; Third() { if (++built == 3) throw 7; } };
              built = 0; try { auto p = allocate_unique<Third[]>(l0, 5); } catch (int) {}
              built = 0; try { auto p = allocate_unique<Third[]>(any_allocator{}, l0, 4); } catch (int) {} }
        }
        else
            switch (comp)
            {
            case 1: raw_op(c1, op, cnt, size, al); break; case 2: raw_op(c2, op, cnt, size, al); break; case 3: raw_op(c3, op, cnt, size, al); break;
            case 4: raw_op(c4, op, cnt, size, al); break; case 5: raw_op(c5, op, cnt, size, al); break; case 6: raw_op(c6, op, cnt, size, al); break;
            case 7: raw_op(c7, op, cnt, size, al); break; case 8: raw_op(c8, op, cnt, size, al); break; case 9: raw_op(c9, op, cnt, size, al); break;
            case 10: raw_op(c10, op, cnt, size, al); break; case 11: raw_op(c11, op, cnt, size, al); break; case 12: raw_op<false>(c12, op, cnt, size, al); break; case 13: raw_op(c13, op, cnt, size, al); break; case 14: raw_op(c14, op, cnt, size, al); break; case 15: raw_op(c15, op, cnt, size, al); break;
            case 16: raw_op(c16, op, cnt, size, al); break; case 17: raw_op(c17, op, cnt, size, al); break; case 18: raw_op(c18, op, cnt, size, al); break;
            }
        std::printf("%s =%s\n", line.c_str(), g_log.c_str());
    }
    return 0;
}

#endif

// ---------------- ownership of composable allocators (C08 a) ----------------
template <class A> static auto cap_of(A& a, int) -> decltype(a.capacity_left()) { return a.capacity_left(); }
template <class A> static std::size_t cap_of(A& a, long) { return allocator_traits<A>::max_node_size(a); }
// a tracker that only counts: part of the state a refused release must leave alone
struct count_tracker
{
    static long events;
    void on_node_allocation(void*, std::size_t, std::size_t) noexcept { ++events; }
    void on_array_allocation(void*, std::size_t, std::size_t, std::size_t) noexcept { ++events; }
    void on_node_deallocation(void*, std::size_t, std::size_t) noexcept { ++events; }
    void on_array_deallocation(void*, std::size_t, std::size_t, std::size_t) noexcept { ++events; }
};
long count_tracker::events = 0;
template <class X> static std::size_t cap_of(tracked_allocator<count_tracker, X>& a, int) { return cap_of(a.get_allocator(), 0) + std::size_t(1000003) * std::size_t(count_tracker::events); }
template <class X> static std::size_t cap_of(allocator_storage<direct_storage<X>, no_mutex>& a, int) { return cap_of(a.get_allocator(), 0); }
// memory of an earlier iteration is still live (and owned) after a switch
template <class A> static void age(A&) {}
template <std::size_t N, class B> static void age(iteration_allocator<N, B>& a) { a.next_iteration(); }
template <class A, class MkA>
static void own_test(const char* name, MkA mk, std::size_t size, std::size_t al, int n)
{
    auto& U = up(); U.gap = 0;
    A* a = mk(U.place(sizeof(A))); A* b = mk(U.place(sizeof(A)));
    using tr = allocator_traits<A>; using ctr = composable_allocator_traits<A>;
    std::vector<void*> pa, pb;
    for (int i = 0; i < n; ++i) { try { pa.push_back(tr::allocate_node(*a, size, al)); } catch (...) {} try { pb.push_back(tr::allocate_node(*b, size, al)); } catch (...) {} }
    age(*a); age(*b);
    for (int i = 0; i < n / 2; ++i) { try { pa.push_back(tr::allocate_node(*a, size, al)); } catch (...) {} try { pb.push_back(tr::allocate_node(*b, size, al)); } catch (...) {} }
    long wrong_true = 0, wrong_false = 0, changed = 0, tests = 0;
    auto probe = [&](A& who, void* p, bool expect) {
        ++tests;
        std::size_t before = cap_of(who, 0);
        bool r = ctr::try_deallocate_node(who, p, size, al);
        if (r && !expect) ++wrong_true;
        if (!r && expect) ++wrong_false;
        if (!r && cap_of(who, 0) != before) ++changed;
        return r;
    };
    // foreign pointers: every live allocation of the sibling, one past its last byte, the byte before its first
    for (void* p : pb) { probe(*a, p, false); probe(*a, static_cast<char*>(p) + size, false); }
    for (void* p : pa) { probe(*b, p, false); }
    // boundary addresses of the upstream blocks of the sibling
    for (auto& blk : U.blocks) { probe(*a, U.base + blk.off + blk.size, blk.off + blk.size < U.blocks.front().off + U.blocks.front().size ? false : false); }
    // arrays: (count, element size) shapes, among them more elements than a node has bytes; the sibling's arrays are refused
    // (nothing changes), the own ones are accepted
    struct arr_t { void* p; std::size_t c, s; };
    std::vector<arr_t> aa_, ab_;
    const std::size_t shapes[3][2] = {{3, size}, {size + 4, 1}, {2, size > 1 ? size / 2 : 1}};
    for (auto& sh : shapes)
    {
        try { aa_.push_back({tr::allocate_array(*a, sh[0], sh[1], 1), sh[0], sh[1]}); } catch (...) {}
        try { ab_.push_back({tr::allocate_array(*b, sh[0], sh[1], 1), sh[0], sh[1]}); } catch (...) {}
    }
    for (auto& x : ab_)
    {
        ++tests; std::size_t before = cap_of(*a, 0);
        bool r = ctr::try_deallocate_array(*a, x.p, x.c, x.s, 1);
        if (r) ++wrong_true; else if (cap_of(*a, 0) != before) ++changed;
    }
    // own pointers are accepted (only where releasing a node really releases it: pools and collections)
    long own_ok = 0;
    for (auto& x : aa_) { bool r = ctr::try_deallocate_array(*a, x.p, x.c, x.s, 1); own_ok += r; ++tests; if (!r) ++wrong_false; }
    for (void* p : pa) { bool r = ctr::try_deallocate_node(*a, p, size, al); own_ok += r; ++tests; if (!r) ++wrong_false; }
    for (auto& x : ab_) ctr::try_deallocate_array(*b, x.p, x.c, x.s, 1);
    std::printf("own %s size=%zu al=%zu allocs=%zu/%zu tests=%ld wrong_true=%ld wrong_false=%ld changed_on_false=%ld own_ok=%ld arrays=%zu\n", name, size, al, pa.size() + aa_.size(), pb.size() + ab_.size(), tests, wrong_true, wrong_false, changed, own_ok, aa_.size());
    b->~A(); a->~A(); U.take();
}

static int run_own()
{
    std::string line;
    while (std::getline(std::cin, line))
    {
        std::istringstream is(line); std::size_t ns = 8, al = 1; int n = 20; is >> ns >> n >> al;
        if (ns == 0) continue;
        own_test<memory_pool<node_pool, up_alloc>>("pool<node>", [=](void* s) { return new (s) memory_pool<node_pool, up_alloc>(ns, 16 + ns * 8); }, ns, al, n);
        own_test<memory_pool<array_pool, up_alloc>>("pool<array>", [=](void* s) { return new (s) memory_pool<array_pool, up_alloc>(ns, 16 + ns * 8); }, ns, al, n);
        own_test<memory_pool<small_node_pool, up_alloc>>("pool<small>", [=](void* s) { return new (s) memory_pool<small_node_pool, up_alloc>(ns, 1024); }, ns, al, 2 * n);
        own_test<memory_pool_collection<node_pool, identity_buckets, up_alloc>>("coll<node,identity>", [=](void* s) { return new (s) memory_pool_collection<node_pool, identity_buckets, up_alloc>(64, 16384); }, ns > 64 ? 64 : ns, al, n);
        own_test<memory_pool_collection<array_pool, log2_buckets, up_alloc>>("coll<array,log2>", [=](void* s) { return new (s) memory_pool_collection<array_pool, log2_buckets, up_alloc>(64, 4096); }, ns > 64 ? 64 : ns, al, n);
        own_test<memory_stack<up_alloc>>("stack", [=](void* s) { return new (s) memory_stack<up_alloc>(16 + ns * 4); }, ns, al, n);
        own_test<iteration_allocator<2, up_alloc>>("iteration<2>", [=](void* s) { return new (s) iteration_allocator<2, up_alloc>(ns * 2 * std::size_t(n) + 64); }, ns, al, n);
        own_test<aligned_allocator<memory_pool<node_pool, up_alloc>>>("aligned<pool<node>>", [=](void* s) { return new (s) aligned_allocator<memory_pool<node_pool, up_alloc>>(1, memory_pool<node_pool, up_alloc>(ns, 16 + ns * 8)); }, ns, al, n);
        {
            using TP = tracked_allocator<count_tracker, memory_pool<array_pool, up_alloc>>;
            own_test<TP>("tracked<pool<array>>", [=](void* s) { return new (s) TP(count_tracker{}, memory_pool<array_pool, up_alloc>(ns, 16 + ns * 8)); }, ns, al, n);
            using DS = allocator_storage<direct_storage<memory_pool<array_pool, up_alloc>>, no_mutex>;
            own_test<DS>("direct_storage<pool<array>>", [=](void* s) { return new (s) DS(memory_pool<array_pool, up_alloc>(ns, 16 + ns * 8)); }, ns, al, n);
        }
        own_test<fallback_allocator<memory_pool<node_pool, fixed_block_allocator<up_alloc>>, memory_pool<array_pool, up_alloc>>>("fallback<pool,pool>", [=](void* s) { return new (s) fallback_allocator<memory_pool<node_pool, fixed_block_allocator<up_alloc>>, memory_pool<array_pool, up_alloc>>(memory_pool<node_pool, fixed_block_allocator<up_alloc>>(ns, 16 + ns * 4), memory_pool<array_pool, up_alloc>(ns, 16 + ns * 8)); }, ns, al, n);
    }
    return 0;
}

// ---------------- nested fallback routing (C08 b) ----------------
static int run_fb()
{
    // three distinct pool types (the same type twice in one tree makes the empty-base storage ambiguous)
    using PA = memory_pool<array_pool, fixed_block_allocator<up_alloc>>;
    using PB = memory_pool<node_pool, fixed_block_allocator<up_alloc>>;
    using PC = memory_pool<array_pool, up_alloc>;
    using F1 = fallback_allocator<PA, PB>;
    using F2 = fallback_allocator<F1, PC>;
    F2 f(F1(PA(16, 16 + 16 * 6), PB(16, 16 + 16 * 6)), PC(16, 16 + 16 * 6000));
    auto caps = [&]() { char b[96]; std::snprintf(b, sizeof b, "%zu %zu %zu", f.get_default_allocator().get_default_allocator().capacity_left(), f.get_default_allocator().get_fallback_allocator().capacity_left(), f.get_fallback_allocator().capacity_left()); return std::string(b); };
    struct h { void* p; std::size_t c, s; bool arr; };
    std::vector<h> hs; std::string line;
    using tr = allocator_traits<F2>; using ctr = composable_allocator_traits<F2>;
    while (std::getline(std::cin, line))
    {
        std::istringstream is(line); std::string op; is >> op;
        std::string before = caps(); std::string res;
        if (op == "an") { try { void* p = tr::allocate_node(f, 16, 8); hs.push_back({p, 1, 16, false}); res = "ok h" + std::to_string(hs.size() - 1); } catch (...) { res = std::string("throw ") + classify_current(); } }
        else if (op == "aa") { std::size_t c, s; is >> c >> s; try { void* p = tr::allocate_array(f, c, s, 8); hs.push_back({p, c, s, true}); res = "ok h" + std::to_string(hs.size() - 1); } catch (...) { res = std::string("throw ") + classify_current(); } }
        else if (op == "d") { std::size_t k; is >> k; if (hs.empty()) continue; k %= hs.size(); auto x = hs[k]; hs.erase(hs.begin() + long(k)); if (x.arr) tr::deallocate_array(f, x.p, x.c, x.s, 8); else tr::deallocate_node(f, x.p, x.s, 8); res = x.arr ? "released arr " + std::to_string(x.c * x.s) : "released node 16"; }
        else if (op == "tan") { void* p = ctr::try_allocate_node(f, 16, 8); if (p) { hs.push_back({p, 1, 16, false}); res = "ok h" + std::to_string(hs.size() - 1); } else res = "null"; }
        else if (op == "td") { std::size_t k; is >> k; if (hs.empty()) continue; k %= hs.size(); auto x = hs[k]; hs.erase(hs.begin() + long(k)); bool r = x.arr ? ctr::try_deallocate_array(f, x.p, x.c, x.s, 8) : ctr::try_deallocate_node(f, x.p, x.s, 8); res = std::string(r ? "tried true " : "tried false ") + std::to_string(x.c * x.s); }
        else if (op == "tdx") { static char foreign[64]; bool r = ctr::try_deallocate_node(f, foreign + 16, 16, 8); res = r ? "foreign true" : "foreign false"; }
        else continue;
        std::printf("%s = %s | %s | %s\n", line.c_str(), res.c_str(), before.c_str(), caps().c_str());
    }
    return 0;
}

// ---------------- nested fallback over instrumented composable leaves (C08 c) ----------------
// leaf k owns the addresses of its own arena; it serves at most `room` outstanding allocations
struct own_leaf
{
    using is_stateful = std::true_type;
    int id; int room; int out = 0; char* mem; std::size_t bump = 0;
    own_leaf(int i, int r) : id(i), room(r), mem(g_arena + std::size_t(i) * (1 << 19)) {}
    own_leaf(own_leaf&& o) noexcept : id(o.id), room(o.room), out(o.out), mem(o.mem), bump(o.bump) {}
    bool owns(void* p) const { return static_cast<char*>(p) >= mem && static_cast<char*>(p) < mem + (1 << 19); }
    void rec(const char* op, std::size_t c, std::size_t s, std::size_t a, const char* r) { char b[128]; std::snprintf(b, sizeof b, " L%d:%s:%zu:%zu:%zu:%s", id, op, c, s, a, r); g_log += b; }
    void* take(std::size_t bytes, std::size_t al) { bump = (bump + al - 1) / al * al; if (bump + bytes > (1 << 19)) bump = 0; void* p = mem + bump; bump += bytes ? bytes : 1; ++out; return p; }
    void* allocate_node(std::size_t s, std::size_t a) { rec("an", 1, s, a, "ok"); return take(s, a); }
    void* allocate_array(std::size_t c, std::size_t s, std::size_t a) { rec("aa", c, s, a, "ok"); return take(c * s, a); }
    void deallocate_node(void* p, std::size_t s, std::size_t a) noexcept { rec("dn", 1, s, a, owns(p) ? "own" : "FOREIGN"); --out; }
    void deallocate_array(void* p, std::size_t c, std::size_t s, std::size_t a) noexcept { rec("da", c, s, a, owns(p) ? "own" : "FOREIGN"); --out; }
    void* try_allocate_node(std::size_t s, std::size_t a) noexcept { if (out >= room) { rec("tan", 1, s, a, "null"); return nullptr; } rec("tan", 1, s, a, "ok"); return take(s, a); }
    void* try_allocate_array(std::size_t c, std::size_t s, std::size_t a) noexcept { if (out >= room) { rec("taa", c, s, a, "null"); return nullptr; } rec("taa", c, s, a, "ok"); return take(c * s, a); }
    bool try_deallocate_node(void* p, std::size_t s, std::size_t a) noexcept { bool o = owns(p); rec("tdn", 1, s, a, o ? "true" : "false"); if (o) --out; return o; }
    bool try_deallocate_array(void* p, std::size_t c, std::size_t s, std::size_t a) noexcept { bool o = owns(p); rec("tda", c, s, a, o ? "true" : "false"); if (o) --out; return o; }
    std::size_t max_node_size() const { return 4096; }
    std::size_t max_array_size() const { return 1 << 18; }
    std::size_t max_alignment() const { return 64; }
};
struct own_leaf1 : own_leaf { using own_leaf::own_leaf; };
struct own_leaf2 : own_leaf { using own_leaf::own_leaf; };
struct own_leaf3 : own_leaf { using own_leaf::own_leaf; };

static int run_fbl()
{
    // depth 3: ((L0 | L1) | L2) | L3, rooms given on the first input line
    using F1 = fallback_allocator<own_leaf, own_leaf1>;
    using F2 = fallback_allocator<F1, own_leaf2>;
    using F3 = fallback_allocator<F2, own_leaf3>;
    std::string line; int r0 = 2, r1 = 2, r2 = 3;
    if (std::getline(std::cin, line)) { std::istringstream is(line); std::string w; is >> w >> r0 >> r1 >> r2; std::printf("%s\n", line.c_str()); }
    F3 f(F2(F1(own_leaf(0, r0), own_leaf1(1, r1)), own_leaf2(2, r2)), own_leaf3(3, 1 << 30));
    using tr = allocator_traits<F3>; using ctr = composable_allocator_traits<F3>;
    struct h { void* p; std::size_t c, s, a; bool arr; };
    std::vector<h> hs;
    while (std::getline(std::cin, line))
    {
        std::istringstream is(line); std::string op; is >> op; g_log.clear(); std::string res;
        std::size_t c = 1, sz = 16, al = 8;
        if (op == "an" || op == "tan") { is >> sz >> al; void* p = op == "an" ? tr::allocate_node(f, sz, al) : ctr::try_allocate_node(f, sz, al); hs.push_back({p, 1, sz, al, false}); res = "h"; }
        else if (op == "aa" || op == "taa") { is >> c >> sz >> al; void* p = op == "aa" ? tr::allocate_array(f, c, sz, al) : ctr::try_allocate_array(f, c, sz, al); hs.push_back({p, c, sz, al, true}); res = "h"; }
        else if (op == "d" || op == "td")
        {
            std::size_t k; is >> k; if (hs.empty()) continue; k %= hs.size(); auto x = hs[k]; hs.erase(hs.begin() + long(k));
            bool r = true;
            if (op == "d") { if (x.arr) tr::deallocate_array(f, x.p, x.c, x.s, x.a); else tr::deallocate_node(f, x.p, x.s, x.a); }
            else r = x.arr ? ctr::try_deallocate_array(f, x.p, x.c, x.s, x.a) : ctr::try_deallocate_node(f, x.p, x.s, x.a);
            char b[96]; std::snprintf(b, sizeof b, "%s %s %zu %zu %zu", r ? "true" : "false", x.arr ? "arr" : "node", x.c, x.s, x.a); res = b;
        }
        else if (op == "tdx") { static char foreign[64]; bool r = ctr::try_deallocate_node(f, foreign + 16, 16, 8); res = r ? "true" : "false"; }
        else continue;
        std::printf("%s = %s |%s\n", line.c_str(), res.c_str(), g_log.c_str());
    }
    return 0;
}

int main(int argc, char** argv)
{
    install_quiet_handlers();
    up().init();
    std::string mode = argc > 1 ? argv[1] : "fwd";
    if (mode == "own") return run_own();
    if (mode == "fb") return run_fb();
    if (mode == "fbl") return run_fbl();
#ifndef H_C08
    return run_fwd();
#else
    return 2;
#endif
}
