// C14 harness: temporary allocators under a deterministic scheduler (stack mode 2) and nested scopes.
// Input:  "main <0|1>"                    whether the main thread takes a temporary stack before the workers start
//         "T <id> <action> ..."           one line per worker (ids 1..N): get | init | idtor | use <n> | scope <seed> | exit
//         "S <id> <id> ..."               the schedule: which worker runs up to its next scheduling point
// The library calls foonathan_memory_verif_yield(point) before every shared-memory step of the stack list; a worker parks there.
// Output: one line per step:  S <t> <from> <to> <action> | T<t>=<stack>... | U<stack>=<in_use>...
#include "hcommon.hpp"
#include "temporary_allocator.hpp"
#include <thread>
#include <mutex>
#include <condition_variable>
#include <vector>
#include <map>
#include <chrono>
#include <cstring>
#include <unistd.h>
using namespace foonathan::memory;
using namespace verif;

struct worker
{
    int id = 0;
    std::vector<std::string> actions;
    std::mutex m; std::condition_variable cv;
    bool go = false, parked = false, finished = false;
    int point = 0;               // where it is parked (0: between actions)
    std::size_t next_action = 0;
    std::string cur;             // action being executed
    temporary_stack* stack = nullptr;
    std::string note;
    pthread_t th;
};
static std::vector<worker*> g_workers;
static thread_local worker* tl_me = nullptr;
static std::mutex g_sm; static std::condition_variable g_scv;   // scheduler side

// one mutex and one condition variable for the whole handshake (no lock-order questions)
static void park(worker& w, int point)
{
    std::unique_lock<std::mutex> l(g_sm);
    w.point = point; w.parked = true;
    g_scv.notify_all();
    g_scv.wait(l, [&] { return w.go; });
    w.go = false; w.parked = false;
}

extern "C" void foonathan_memory_verif_yield(int point)
{
    if (tl_me) park(*tl_me, point);
}

static std::string run_scope(temporary_stack& st, unsigned seed, int depth)
{
    // nested temporary allocators with allocations of many sizes (also several blocks at once); after each scope the stack is as before
    auto rnd = [&]() { seed = seed * 1103515245u + 12345u; return (seed >> 8) & 0xffff; };
    auto before_top = st.top(); auto before_cap = st.stack_.capacity_left(); auto before_blocks = st.stack_.arena_.size();
    std::string err;
    {
        temporary_allocator alloc(st);
        int n = 1 + rnd() % 5;
        std::vector<std::pair<unsigned char*, std::size_t>> mine;
        for (int i = 0; i < n; ++i)
        {
            std::size_t size = (rnd() % 7 == 0) ? 3000 + rnd() % 9000 : 1 + rnd() % 300;
            unsigned char* p = nullptr;
            try { p = static_cast<unsigned char*>(alloc.allocate(size, std::size_t(1) << (rnd() % 5))); } catch (...) { continue; }   // larger than the next block can be
            std::memset(p, 0x40 + depth, size); mine.push_back({p, size});
            if (depth < 5 && rnd() % 3 == 0) { auto e = run_scope(st, rnd(), depth + 1); if (!e.empty() && err.empty()) err = e; }
        }
        for (auto& a : mine) for (std::size_t i = 0; i < a.second; ++i) if (a.first[i] != 0x40 + depth) { if (err.empty()) err = "memory of an outer scope was overwritten"; break; }
    }
    if (!(st.top() == before_top) || st.stack_.capacity_left() != before_cap || st.stack_.arena_.size() != before_blocks)
    {
        char b[200]; std::snprintf(b, sizeof b, "depth %d: after the scope capacity_left=%zu blocks=%zu, at its construction %zu / %zu", depth, st.stack_.capacity_left(), st.stack_.arena_.size(), before_cap, before_blocks);
        if (err.empty()) err = b;
    }
    return err;
}

static void worker_main(worker* w)
{
    tl_me = w;
#if FOONATHAN_MEMORY_TEMPORARY_STACK_MODE == 1
    // the documented way to use mode 1: one initializer on the top-level function of the thread takes care of the stack
    temporary_stack_initializer top_level(temporary_stack_initializer::defer_create);
#endif
    temporary_stack_initializer* init = nullptr;
    alignas(temporary_stack_initializer) static thread_local char init_store[sizeof(temporary_stack_initializer)];
    park(*w, 0);                                   // wait for the first turn
    for (; w->next_action < w->actions.size();)
    {
        std::string a = w->actions[w->next_action++]; w->cur = a; w->note.clear();
        std::istringstream is(a); std::string op; is >> op;
        if (op == "get") { w->stack = &get_temporary_stack(); }
        else if (op == "init") { if (!init) { init = new (init_store) temporary_stack_initializer(); w->stack = &get_temporary_stack(); } }
        else if (op == "idtor") { if (init) { init->~temporary_stack_initializer(); init = nullptr; w->note = "idtor"; } }
        else if (op == "use")
        {
            std::size_t n = 1; is >> n; temporary_allocator alloc; w->stack = &get_temporary_stack();
            for (std::size_t i = 0; i < n; ++i) { auto p = static_cast<unsigned char*>(alloc.allocate(40 + i, 8)); std::memset(p, w->id, 40 + i); }
        }
        else if (op == "scope") { unsigned seed = 1; is >> seed; w->stack = &get_temporary_stack(); auto e = run_scope(*w->stack, seed, 0); w->note = e.empty() ? "scope-ok" : ("scope-MISMATCH " + e); }
        else if (op == "exit") break;
        park(*w, 0);                               // action finished
    }
    // thread exit: thread-local destructors run after this function returns (the detector parks at point 6)
    w->cur = "exit";
}

static std::map<temporary_stack*, int> g_ids;
static int sid(temporary_stack* s) { if (!s) return -1; auto it = g_ids.find(s); if (it != g_ids.end()) return it->second; int n = int(g_ids.size()); g_ids[s] = n; return n; }

static void h_leak_print(const allocator_info& info, std::ptrdiff_t amount) noexcept
{
    std::printf("LEAK %s %ld\n", info.name, long(amount)); std::fflush(stdout);
}

// free-running threads (no scheduler): rounds of threads released together adopt the free stacks left by earlier threads;
// the step the model treats as atomic (the compare-exchange on in_use_) is exercised under real concurrency
#include <atomic>
static int run_stress(int rounds, int nthreads)
{
    long dup = 0, steps = 0;
    for (int r = 0; r < rounds && dup == 0; ++r)
    {
        std::atomic<int> ready{0}, recorded{0}; std::atomic<bool> go{false};
        std::vector<temporary_stack*> got(std::size_t(nthreads), nullptr);
        std::vector<std::thread> ts;
        for (int t = 0; t < nthreads; ++t)
            ts.emplace_back([&, t] {
                ++ready; while (!go.load()) {}
                auto* s = &get_temporary_stack(); got[std::size_t(t)] = s;
                { temporary_allocator a; auto p = static_cast<unsigned char*>(a.allocate(64, 8)); std::memset(p, t + 1, 64);
                  ++recorded; while (recorded.load() < nthreads) {}            // everybody holds a stack now
                  for (int i = 0; i < 64; ++i) if (p[i] != t + 1) { ++dup; break; } }
            });
        while (ready.load() < nthreads) {}
        go = true;
        for (auto& th : ts) th.join();
        for (int a = 0; a < nthreads; ++a) for (int b = a + 1; b < nthreads; ++b) if (got[std::size_t(a)] == got[std::size_t(b)]) ++dup;
        steps += nthreads;
    }
    std::printf("stress rounds=%d threads=%d acquisitions=%ld shared=%ld\n", rounds, nthreads, steps, dup);
    return 0;
}

int main(int argc, char** argv)
{
    install_quiet_handlers();
    set_leak_handler(h_leak_print);
    if (argc > 3 && std::string(argv[1]) == "stress") return run_stress(std::atoi(argv[2]), std::atoi(argv[3]));
    std::string line; int main_uses = 0; std::vector<int> sched;
    while (std::getline(std::cin, line))
    {
        std::istringstream is(line); std::string k; is >> k;
        if (k == "main") is >> main_uses;
        else if (k == "T")
        {
            auto* w = new worker; is >> w->id; std::string rest; std::getline(is, rest);
            // actions are separated by ';'
            std::size_t p = 0; while (p < rest.size()) { auto q = rest.find(';', p); if (q == std::string::npos) q = rest.size(); std::string a = rest.substr(p, q - p); while (!a.empty() && a[0] == ' ') a.erase(0, 1); if (!a.empty()) w->actions.push_back(a); p = q + 1; }
            g_workers.push_back(w);
        }
        else if (k == "S") { int t; while (is >> t) sched.push_back(t); }
    }
    temporary_stack* main_stack = nullptr;
    if (main_uses) { main_stack = &get_temporary_stack(); temporary_allocator a; a.allocate(100, 8); }
    std::printf("main %d | M=%d\n", main_uses, sid(main_stack));
    for (auto* w : g_workers) pthread_create(&w->th, nullptr, [](void* p) -> void* { worker_main(static_cast<worker*>(p)); return nullptr; }, w);
    auto wait_parked = [&](worker& w) {
        std::unique_lock<std::mutex> l(g_sm);
        bool ok = g_scv.wait_for(l, std::chrono::seconds(10), [&] { return w.parked || w.finished; });
        if (!ok) { std::printf("STUCK worker %d\n", w.id); std::fflush(stdout); _exit(4); }
    };
    for (auto* w : g_workers) wait_parked(*w);
    auto find = [&](int id) -> worker* { for (auto* w : g_workers) if (w->id == id) return w; return nullptr; };
    auto dump = [&]() {
        std::string s;
        for (auto* w : g_workers) { char b[48]; std::snprintf(b, sizeof b, " T%d=%d", w->id, w->finished ? -2 : sid(w->stack)); s += b; }
        s += " |";
        std::vector<std::pair<int, temporary_stack*>> v; for (auto& kv : g_ids) v.push_back({kv.second, kv.first});
        std::sort(v.begin(), v.end());
#if FOONATHAN_MEMORY_TEMPORARY_STACK_MODE >= 2
        for (auto& kv : v) { char b[48]; std::snprintf(b, sizeof b, " U%d=%d", kv.first, int(kv.second->in_use_.load())); s += b; }
#else
        for (auto& kv : v) { char b[48]; std::snprintf(b, sizeof b, " U%d=x", kv.first); s += b; }
#endif
        return s;
    };
    auto step = [&](worker& w) {
        if (w.finished) return;
        int from; std::string action;
        bool exiting = false;
        { std::unique_lock<std::mutex> l(g_sm); from = w.point; w.go = true; }
        g_scv.notify_all();
        // the worker either parks again or its thread ends
        for (;;)
        {
            { std::unique_lock<std::mutex> l(g_sm);
              if (g_scv.wait_for(l, std::chrono::milliseconds(2), [&] { return w.parked && !w.go; })) break; }
            if (w.cur == "exit")
            {   // the thread function has returned or is returning: wait for the thread itself
                void* rv; timespec ts; clock_gettime(CLOCK_REALTIME, &ts); ts.tv_nsec += 2000000; if (ts.tv_nsec >= 1000000000) { ts.tv_sec++; ts.tv_nsec -= 1000000000; }
                if (pthread_timedjoin_np(w.th, &rv, &ts) == 0) { w.finished = true; exiting = true; break; }
            }
        }
        int to = w.finished ? 9 : w.point;
        std::printf("S %d %d %d %s%s%s |%s\n", w.id, from, to, w.cur.c_str(), w.note.empty() ? "" : " ", w.note.c_str(), dump().c_str());
        std::fflush(stdout);
        (void)exiting;
    };
    for (int t : sched) { auto* w = find(t); if (w) step(*w); }
    // run everything to completion
    for (bool any = true; any;) { any = false; for (auto* w : g_workers) if (!w->finished) { step(*w); any = true; } }
    std::printf("end | %s\n", dump().c_str());
    std::fflush(stdout);
    return 0;   // static destruction: the nifty counter destroys the list; the leak checker of the low-level allocator reports what is left
}
