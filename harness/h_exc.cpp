// C20: exception safety of allocate_unique / allocate_unique<T[]> / allocate_shared.
// input: "u <helper> <leaf> <n> <throw_at>"   helper: single|array|anyarray|anysingle|shared ; leaf: up|pool|stack ; throw_at -1 = none
// output: events as a canonical list: A=alloc F=free C<i> D<i> T=throw  (i = element index by address)
#include "hcommon.hpp"
#include "smart_ptr.hpp"
#include "memory_pool.hpp"
#include "memory_stack.hpp"
#include <memory>
using namespace foonathan::memory;
using namespace verif;

struct boom {};
static std::vector<std::pair<char, std::uintptr_t>> g_ev;   // 'C'/'D' with address
static long g_seq = 0, g_throw_at = -1;
struct Elem
{
    long pad;
    Elem() { if (g_seq++ == g_throw_at) throw boom{}; g_ev.push_back({'C', reinterpret_cast<std::uintptr_t>(this)}); }
    Elem(const Elem&) { if (g_seq++ == g_throw_at) throw boom{}; g_ev.push_back({'C', reinterpret_cast<std::uintptr_t>(this)}); }
    ~Elem() { g_ev.push_back({'D', reinterpret_cast<std::uintptr_t>(this)}); }
};

// same, but with a move constructor that cannot throw (only default construction can): the rollback must not depend on that
struct ElemNM
{
    long pad;
    ElemNM() { if (g_seq++ == g_throw_at) throw boom{}; g_ev.push_back({'C', reinterpret_cast<std::uintptr_t>(this)}); }
    ElemNM(const ElemNM&) { if (g_seq++ == g_throw_at) throw boom{}; g_ev.push_back({'C', reinterpret_cast<std::uintptr_t>(this)}); }
    ElemNM(ElemNM&&) noexcept { g_ev.push_back({'C', reinterpret_cast<std::uintptr_t>(this)}); }
    ~ElemNM() { g_ev.push_back({'D', reinterpret_cast<std::uintptr_t>(this)}); }
};
static_assert(sizeof(ElemNM) == sizeof(Elem), "the event log divides addresses by sizeof(Elem)");
// default construction cannot throw, construction from an argument can: the guard must not depend on the default constructor
struct ElemArg
{
    long pad;
    ElemArg() noexcept {}
    explicit ElemArg(int) { if (g_seq++ == g_throw_at) throw boom{}; g_ev.push_back({'C', reinterpret_cast<std::uintptr_t>(this)}); }
    ~ElemArg() { g_ev.push_back({'D', reinterpret_cast<std::uintptr_t>(this)}); }
};
static_assert(sizeof(ElemArg) == sizeof(Elem), "the event log divides addresses by sizeof(Elem)");

// leaf that records alloc/free in the same event list and checks parameters
struct rec_alloc
{
    using is_stateful = std::true_type;
    struct blk { void* p; std::size_t size, al; bool arr; std::size_t count; };
    std::vector<blk>* live; long* errors;
    void* allocate_node(std::size_t size, std::size_t al) { void* p = up().allocate(size, al); g_ev.push_back({'A', 0}); live->push_back({p, size, al, false, 1}); return p; }
    void* allocate_array(std::size_t c, std::size_t size, std::size_t al) { void* p = up().allocate(c * size, al); g_ev.push_back({'A', 0}); live->push_back({p, size, al, true, c}); return p; }
    void deallocate_node(void* p, std::size_t size, std::size_t al) noexcept { rel(p, size, al, false, 1); up().deallocate(p, size, al); }
    void deallocate_array(void* p, std::size_t c, std::size_t size, std::size_t al) noexcept { rel(p, size, al, true, c); up().deallocate(p, c * size, al); }
    void rel(void* p, std::size_t size, std::size_t al, bool arr, std::size_t c) noexcept
    {
        g_ev.push_back({'F', 0});
        for (auto it = live->begin(); it != live->end(); ++it)
            if (it->p == p) { if (it->size != size || it->al != al || it->arr != arr || it->count != c) ++*errors; live->erase(it); return; }
        ++*errors;
    }
    std::size_t max_node_size() const { return std::size_t(-1); }
    std::size_t max_array_size() const { return std::size_t(-1); }
    std::size_t max_alignment() const { return 4096; }
};

template <class Alloc>
static void run_helper(const std::string& helper, Alloc& alloc, std::size_t n, bool& threw)
{
    try
    {
        if (helper == "single") { auto p = allocate_unique<Elem>(alloc); }
        else if (helper == "anysingle") { auto p = allocate_unique<Elem>(any_allocator{}, alloc); }
        else if (helper == "array") { auto p = allocate_unique<Elem[]>(alloc, n); }
        else if (helper == "anyarray") { auto p = allocate_unique<Elem[]>(any_allocator{}, alloc, n); }
        else if (helper == "shared") { auto p = allocate_shared<Elem>(alloc); }
        else if (helper == "singlearg") { auto p = allocate_unique<ElemArg>(alloc, 1); }
        else if (helper == "anysinglearg") { auto p = allocate_unique<ElemArg>(any_allocator{}, alloc, 1); }
        else if (helper == "sharedarg") { auto p = allocate_shared<ElemArg>(alloc, 1); }
        else if (helper == "arraynm") { auto p = allocate_unique<ElemNM[]>(alloc, n); }
        else if (helper == "anyarraynm") { auto p = allocate_unique<ElemNM[]>(any_allocator{}, alloc, n); }
    }
    catch (boom&) { threw = true; }
}

int main()
{
    install_quiet_handlers();
    up().init();
    std::string line;
    while (std::getline(std::cin, line))
    {
        std::istringstream is(line); std::string k, helper, leaf; std::size_t n; long t; is >> k >> helper >> leaf >> n >> t;
        if (k != "u") continue;
        g_ev.clear(); g_seq = 0; g_throw_at = t; bool threw = false; long errors = 0; std::vector<rec_alloc::blk> live; bool usable = true; long leaks0 = hc().leak;
        if (leaf == "up") { rec_alloc a{&live, &errors}; run_helper(helper, a, n, threw); try { void* q = a.allocate_node(8, 8); a.deallocate_node(q, 8, 8); g_ev.pop_back(); g_ev.pop_back(); } catch (...) { usable = false; } }
        else if (leaf == "pool")
        {
            memory_pool<array_pool, up_alloc> pool(sizeof(Elem) * 2 + 64, 4096);
            auto cap0 = pool.capacity_left();
            if (helper == "array" || helper == "anyarray") { memory_stack<up_alloc> st(4096); run_helper(helper, st, n, threw); try { st.allocate(8, 8); } catch (...) { usable = false; } }
            else { run_helper(helper, pool, n, threw); if (pool.capacity_left() != cap0) ++errors; try { auto q = pool.allocate_node(); pool.deallocate_node(q); } catch (...) { usable = false; } }
        }
        up().take();
        // canonical form: element index by address
        std::uintptr_t base = 0; for (auto& e : g_ev) if (e.first == 'C' || e.first == 'D') { if (!base || e.second < base) base = e.second; }
        std::printf("%s =", line.c_str());
        for (auto& e : g_ev)
        {
            if (e.first == 'A' || e.first == 'F') std::printf(" %c", e.first);
            else std::printf(" %c%zu", e.first, std::size_t((e.second - base) / sizeof(Elem)));
        }
        if (threw) std::printf(" T");
        std::printf(" | errors=%ld live=%zu usable=%d leaks=%ld\n", errors, live.size(), int(usable), hc().leak - leaks0);
        std::fflush(stdout);
    }
    std::printf("end live_blocks=%zu errors=%ld\n", up().live_count(), up().errors);
}
