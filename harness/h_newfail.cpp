// C03: new_allocator when the system refuses.  operator new(nothrow) is replaced and made to fail for large requests;
// new_handlers with numbers react as a table says: t = throw, u = uninstall itself, i<k> = install handler k, f = make memory available.
// usage: h_newfail <first handler or -1> <table: comma separated, entry h for handler h> ; prints the handlers called and the outcome
#include "hcommon.hpp"
#include "new_allocator.hpp"
#include "allocator_traits.hpp"
#include <cstdlib>
#include <cstring>
#include <unistd.h>
using namespace foonathan::memory;
using namespace verif;

static bool g_fail = false;
void* operator new(std::size_t n, const std::nothrow_t&) noexcept { if (g_fail && n >= 4096) return nullptr; return std::malloc(n ? n : 1); }
void operator delete(void* p) noexcept { std::free(p); }
void operator delete(void* p, std::size_t) noexcept { std::free(p); }
void operator delete(void* p, const std::nothrow_t&) noexcept { std::free(p); }

static std::vector<std::string> g_table; static std::string g_calls; static long g_ncalls = 0;
template <int H> static void handler();
static std::new_handler g_handlers[8] = {handler<0>, handler<1>, handler<2>, handler<3>, handler<4>, handler<5>, handler<6>, handler<7>};
static void act(int h)
{
    g_calls += (g_calls.empty() ? "" : ",") + std::to_string(h);
    if (++g_ncalls > 50) { std::printf("newfail = spinning calls=%s\n", g_calls.c_str()); std::fflush(stdout); _exit(3); }
    const std::string& b = g_table[std::size_t(h)];
    if (b == "t") throw std::bad_alloc();
    if (b == "u") std::set_new_handler(nullptr);
    else if (b[0] == 'i') std::set_new_handler(g_handlers[std::atoi(b.c_str() + 1)]);
    else if (b == "f") g_fail = false;
}
template <int H> static void handler() { act(H); }

int main(int argc, char** argv)
{
    install_quiet_handlers();
    int first = std::atoi(argv[1]);
    { std::string t = argc > 2 ? argv[2] : ""; std::size_t p = 0; while (p <= t.size()) { auto q = t.find(',', p); if (q == std::string::npos) q = t.size(); g_table.push_back(t.substr(p, q - p)); p = q + 1; } }
    while (g_table.size() < 8) g_table.push_back("t");
    new_allocator a;
    void* keep = allocator_traits<new_allocator>::allocate_node(a, 100, 8);     // an earlier allocation stays valid
    std::memset(keep, 0x5A, 100);
    std::set_new_handler(first >= 0 ? g_handlers[first] : nullptr);
    g_fail = true; alarm(10);
    const char* out = "ok"; void* p = nullptr;
    try { p = allocator_traits<new_allocator>::allocate_node(a, 1 << 20, 16); if (!p) out = "null"; }
    catch (...) { out = classify_current(); }
    g_fail = false; std::set_new_handler(nullptr);
    bool intact = true; for (int i = 0; i < 100; ++i) if (static_cast<unsigned char*>(keep)[i] != 0x5A) intact = false;
    // a later valid request is served
    const char* later = "ok";
    try { void* q = allocator_traits<new_allocator>::allocate_node(a, 1 << 20, 16); allocator_traits<new_allocator>::deallocate_node(a, q, 1 << 20, 16); } catch (...) { later = "throw"; }
    if (p) allocator_traits<new_allocator>::deallocate_node(a, p, 1 << 20, 16);
    allocator_traits<new_allocator>::deallocate_node(a, keep, 100, 8);
    std::printf("newfail = %s calls=%s oom=%ld intact=%d later=%s\n", out, g_calls.empty() ? "-" : g_calls.c_str(), hc().oom, int(intact), later);
    return 0;
}
