// Instrumented upstream memory for all harnesses: one mmap'ed region whose base is 2^32-aligned, bump
// placement (never reused, so stale pointers are detectable), every call logged, EnvOK asserted,
// failure injection at the k-th allocation call.  All addresses in logs are offsets from the region base.
#ifndef VERIF_UPSTREAM_HPP
#define VERIF_UPSTREAM_HPP
#include <sys/mman.h>
#include <cstdio>
#include <cstdlib>
#include <cstring>
#include <cstdint>
#include <new>
#include <vector>
#include <string>
#include <type_traits>
#include <algorithm>

namespace verif
{
    struct ublock { std::size_t off, size, align; bool live; int tag = 0; };

    struct upstream_state
    {
        char*        base      = nullptr;
        std::size_t  region    = std::size_t(1) << 31; // 2 GiB of address space, untouched pages cost nothing
        std::size_t  bump      = 1 << 16;
        std::size_t  gap       = 0;                    // bytes left between consecutive blocks
        bool         descending = false;               // hand out blocks at falling addresses (never reused either)
        std::size_t  down      = std::size_t(1) << 30;
        std::size_t  skew      = 0;                    // blocks asked with alignment <= skew start at an address = skew (mod 2*skew)
        long         calls     = 0;                    // allocation calls so far
        long         fail_at   = -1;                   // fail the allocation call with this index (1-based)
        long         fail_from = -1;                   // fail every allocation call from this index on
        int          fail_mode = 0;                    // 0: std::bad_alloc, 1: return nullptr
        std::vector<ublock> blocks;
        std::string  oplog;                            // upstream calls since last take()
        void (*ev_hook)(char) = nullptr;               // called with 'A' / 'F' on every successful allocation / release
        long         errors    = 0;
        long         total_alloc = 0, total_dealloc = 0;

        void init()
        {
            if (base) return;
            std::size_t want = region + (std::size_t(1) << 32);
            void* p = mmap(nullptr, want, PROT_READ | PROT_WRITE, MAP_PRIVATE | MAP_ANONYMOUS | MAP_NORESERVE, -1, 0);
            if (p == MAP_FAILED) { std::perror("mmap"); std::exit(3); }
            auto a = reinterpret_cast<std::uintptr_t>(p);
            a = (a + (std::uintptr_t(1) << 32) - 1) & ~((std::uintptr_t(1) << 32) - 1);
            base = reinterpret_cast<char*>(a);
        }
        std::size_t off(const void* p) const { return std::size_t(static_cast<const char*>(p) - base); }
        bool inside(const void* p) const { return p >= base && p < base + region; }

        // place a raw object area (for allocator objects themselves) -- not logged as upstream call
        void* place(std::size_t size, std::size_t align = 64)
        {
            init();
            bump = (bump + align - 1) & ~(align - 1);
            void* r = base + bump; bump += size; return r;
        }

        std::size_t high_bump = 0;
        void* place_high(std::size_t size, std::size_t align = 64)
        {
            init();
            if (!high_bump) high_bump = region - (1 << 20);
            high_bump = (high_bump + align - 1) & ~(align - 1);
            void* r = base + high_bump; high_bump += size; return r;
        }

        void* allocate(std::size_t size, std::size_t align, int tag = 0)
        {
            init();
            ++calls;
            char buf[96];
            if (calls == fail_at || (fail_from > 0 && calls >= fail_from))
            {
                std::snprintf(buf, sizeof buf, " U+ %zu %zu fail", size, align); oplog += buf;
                if (fail_mode == 1) return nullptr;
                throw std::bad_alloc();
            }
            std::size_t al = align < 16 ? 16 : align;
            if (descending)
            {
                down = (down - size - gap) & ~(al - 1);
                std::size_t o = down;
                blocks.push_back({o, size, align, true, tag});
                ++total_alloc; if (ev_hook) ev_hook('A');
                std::snprintf(buf, sizeof buf, " U+ %zu %zu %zu", size, align, o); oplog += buf;
                return base + o;
            }
            bump = (bump + gap + al - 1) & ~(al - 1);
            if (skew && align <= skew) bump += skew;
            if (bump + size > region - (2 << 20)) { std::fprintf(stderr, "upstream region exhausted\n"); std::exit(3); }
            std::size_t o = bump; bump += size;
            blocks.push_back({o, size, align, true, tag});
            ++total_alloc; if (ev_hook) ev_hook('A');
            std::snprintf(buf, sizeof buf, " U+ %zu %zu %zu", size, align, o); oplog += buf;
            return base + o;
        }
        void deallocate(void* p, std::size_t size, std::size_t align, int tag = 0)
        {
            char buf[96];
            std::size_t o = off(p);
            bool found = false;
            for (auto& b : blocks)
                if (b.live && b.off == o) { found = true; if (b.size != size || b.align != align) { ++errors; oplog += " U!mismatch"; } if (b.tag != tag) { ++errors; oplog += " U!foreign"; } b.live = false; break; }
            if (!found) { ++errors; oplog += " U!unknown"; }
            ++total_dealloc; if (ev_hook) ev_hook('F');
            std::snprintf(buf, sizeof buf, " U- %zu %zu %zu", size, align, o); oplog += buf;
            if (found) std::memset(p, 0xEE, size);
        }
        std::string take() { std::string s; s.swap(oplog); return s; }
        std::size_t live_count() const { std::size_t n = 0; for (auto& b : blocks) n += b.live; return n; }
        // blocks are never reused, so memory returned upstream must still carry the 0xEE pattern at exit:
        // anything else is a write into memory the allocator no longer owns
        std::size_t stale_writes() const
        {
            std::size_t n = 0;
            for (auto& b : blocks)
                if (!b.live)
                    for (std::size_t i = 0; i < b.size; ++i)
                        if ((unsigned char)base[b.off + i] != 0xEE) { ++n; break; }
            return n;
        }
    };

    inline upstream_state& up() { static upstream_state s; return s; }

    // RawAllocator over the upstream (stateful so that the library keeps a reference / copy semantics simple)
    struct up_alloc
    {
        using is_stateful = std::true_type;
        int tag = 0;
        void* allocate_node(std::size_t size, std::size_t alignment) { return up().allocate(size, alignment, tag); }
        void  deallocate_node(void* p, std::size_t size, std::size_t alignment) noexcept { up().deallocate(p, size, alignment, tag); }
        void* allocate_array(std::size_t count, std::size_t size, std::size_t alignment) { return up().allocate(count * size, alignment, tag); }
        void  deallocate_array(void* p, std::size_t count, std::size_t size, std::size_t alignment) noexcept { up().deallocate(p, count * size, alignment, tag); }
        std::size_t max_node_size() const { return std::size_t(-1); }
        std::size_t max_array_size() const { return std::size_t(-1); }
        std::size_t max_alignment() const { return std::size_t(1) << 31; }
    };
} // namespace verif
#endif
