// Harness for iteration_allocator<N>, N = 1..5: executes a script, logs every result.
//   init <N> <block_size> | a <size> <al> | t <size> <al> | n | c
#include "hcommon.hpp"
#include "iteration_allocator.hpp"
#include <map>
using namespace foonathan::memory;
using namespace verif;

struct live_t { std::size_t off, size; unsigned pat; long born; };

template <std::size_t N>
int run_script(std::size_t block_size)
{
    auto& U = up();
    long its = 0;
    std::vector<live_t> live;
    unsigned next_pat = 1;
    iteration_allocator<N, up_alloc>* alloc = nullptr;
    std::vector<iteration_allocator<N, up_alloc>*> graveyard;
    void* place = U.place(sizeof(iteration_allocator<N, up_alloc>));
    try { alloc = new (place) iteration_allocator<N, up_alloc>(block_size); }
    catch (...) { std::printf("init %zu %zu = throw %s |%s\n", N, block_size, classify_current(), U.take().c_str()); return 0; }
    std::size_t base = U.blocks.empty() ? 0 : U.blocks.back().off;
    std::printf("init %zu %zu = %zu |%s\n", N, block_size, base, U.take().c_str());
    std::fflush(stdout);
    std::string line;
    auto verify = [&](bool dying_only) {
        // content of every allocation that is still within its lifetime must be intact
        for (auto& l : live)
        {
            if (its - l.born >= long(N)) continue;
            const unsigned char* p = reinterpret_cast<unsigned char*>(U.base + l.off);
            for (std::size_t i = 0; i < l.size; ++i)
                if (p[i] != (unsigned char)(l.pat + i)) { std::printf("corrupt off=%zu size=%zu at=%zu age=%ld\n", l.off, l.size, i, its - l.born); break; }
        }
    };
    while (std::getline(std::cin, line))
    {
        std::istringstream is(line); std::string op; is >> op;
        std::size_t xsize = 0, xal = 0; bool isx = false;
        if (op == "x")
        {   // exact fit (+delta) at alignment al: size computed from the public capacity figure
            long delta; std::string kind; is >> xal >> delta >> kind;
            std::size_t cap = alloc->capacity_left();
            std::size_t region_end = base; // block offset
            {   // top = block_end(cur) - capacity_left
                std::size_t c = alloc->cur_iteration();
                std::size_t endoff = base + (c + 1) * block_size / N;
                std::size_t top = endoff - cap;
                std::size_t fence = foonathan::memory::detail::debug_fence_size;
                std::size_t a = top + fence; std::size_t off = (xal - a % xal) % xal;
                long s = long(cap) - long(2 * fence) - long(off) + delta;
                xsize = s < 0 ? 0 : std::size_t(s);
            }
            op = kind; isx = true;
        }
        if (op == "a" || op == "t")
        {
            std::size_t size, al;
            if (isx) { size = xsize; al = xal; } else is >> size >> al;
            long h0 = hc().oom;
            void* p = nullptr; const char* ex = nullptr;
            try { p = op == "a" ? alloc->allocate(size, al) : alloc->try_allocate(size, al); }
            catch (...) { ex = classify_current(); }
            if (ex) std::printf("%s %zu %zu = throw %s h=%ld\n", op.c_str(), size, al, ex, hc().oom - h0);
            else if (!p) std::printf("%s %zu %zu = null\n", op.c_str(), size, al);
            else
            {
                std::printf("%s %zu %zu = ok %zu\n", op.c_str(), size, al, U.off(p));
                unsigned char* q = static_cast<unsigned char*>(p);
#if FOONATHAN_MEMORY_DEBUG_FILL
                for (std::size_t i = 0; i < size; ++i) if (q[i] != 0xCD) { std::printf("nofill off=%zu at=%zu\n", U.off(p), i); break; }
#endif
                live_t l{U.off(p), size, next_pat, its}; next_pat = next_pat * 31 + 7;
                for (std::size_t i = 0; i < size; ++i) q[i] = (unsigned char)(l.pat + i);
                live.push_back(l);
            }
        }
        else if (op == "n")
        {
            verify(false);
            alloc->next_iteration(); ++its;
            { std::size_t ci = alloc->cur_iteration();
              std::printf("n = %zu cap=%zu region=%zu\n", ci, alloc->capacity_left(ci), std::size_t(alloc->block_end(ci) - alloc->block_start(ci))); }
            // drop expired
            std::vector<live_t> keep;
            for (auto& l : live) if (its - l.born < long(N)) keep.push_back(l);
            live.swap(keep);
            verify(false);
        }
        else if (op == "c")
        {
            std::printf("c =");
            for (std::size_t i = 0; i < N; ++i) std::printf(" %zu", alloc->capacity_left(i));
            std::printf("\n");
        }
        else if (op == "v") verify(false);
        else if (op == "mv")
        {   // move construction: the new object owns the block, the old one is inert
            auto* n = new (U.place(sizeof(*alloc))) iteration_allocator<N, up_alloc>(std::move(*alloc));
            graveyard.push_back(alloc); alloc = n;
            std::printf("mv = moved |%s\n", U.take().c_str());
        }
        else if (op == "ma")
        {   // move assignment onto a live target: the target's own block must go back upstream
            auto* n = new (U.place(sizeof(*alloc))) iteration_allocator<N, up_alloc>(block_size);
            std::string ev0 = U.take();
            *n = std::move(*alloc);
            graveyard.push_back(alloc); alloc = n;
            std::printf("ma = assigned |%s ;%s\n", ev0.c_str(), U.take().c_str());
        }
        else if (op == "mfa")
        {   // a fresh allocator is move-assigned into a moved-from object, which is then destroyed:
            // exactly the fresh allocator's block goes back, nothing that belongs to anybody else
            if (graveyard.empty()) { std::printf("mfa = skipped |\n"); }
            else
            {
                auto* g = graveyard.back(); graveyard.pop_back();
                auto* f = new (U.place(sizeof(*alloc))) iteration_allocator<N, up_alloc>(block_size);
                *g = std::move(*f); g->~iteration_allocator(); graveyard.push_back(f);
                std::printf("mfa = done |%s\n", U.take().c_str());
            }
        }
        std::fflush(stdout);
    }
    verify(false);
    alloc->~iteration_allocator();
    for (auto g : graveyard) g->~iteration_allocator();
    std::printf("destroy |%s\n", U.take().c_str());
    std::printf("end live_blocks=%zu errors=%ld stale_writes=%zu\n", U.live_count(), U.errors, U.stale_writes());
    return 0;
}

int main()
{
    install_quiet_handlers();
    std::string line; std::getline(std::cin, line);
    std::istringstream is(line); std::string op; std::size_t n, bs; is >> op >> n >> bs;
    switch (n)
    {
    case 1: return run_script<1>(bs);
    case 2: return run_script<2>(bs);
    case 3: return run_script<3>(bs);
    case 4: return run_script<4>(bs);
    case 5: return run_script<5>(bs);
    }
    return 2;
}
