// C12 harness: move construction, move assignment, swap and destruction of every stateful allocator, arena and block source.
// First line: "move <type> <low|high>".  Four slots hold objects of that type.
//   new k | use k n | rel k | mc i j | ma i j | sw i j | del k | chk
// Memory (handles) taken from an object follows the object's memory through moves and is released through the new owner.
// Output per op:  <op> = <result> |<upstream events> | k:<E|L|M>:<capacity figure> ...
#include "hcommon.hpp"
#include "memory_pool.hpp"
#include "memory_pool_collection.hpp"
#include "memory_stack.hpp"
#include "iteration_allocator.hpp"
#include "memory_arena.hpp"
#include "static_allocator.hpp"
#include "virtual_memory.hpp"
#include "tracking.hpp"
#include "detail/free_list.hpp"
#include "detail/small_free_list.hpp"
#include <vector>
#include <utility>
#include <cstring>
#include <algorithm>
using namespace foonathan::memory;
using namespace verif;

struct handle { void* p; std::size_t size; unsigned pat; int owner; memory_block blk; };

struct subject
{
    virtual ~subject() {}
    virtual subject* move_construct(void* slot) = 0;           // new (slot) T(std::move(*this))
    virtual void     move_assign_from(subject& other) = 0;     // *this = std::move(other)
    virtual void     swap_with(subject& other) = 0;
    virtual bool     take(handle& h, std::size_t n) = 0;       // allocate something of n bytes
    virtual void     give(handle& h) = 0;
    virtual void     destroy() = 0;                            // ~T()
    virtual std::size_t figure() = 0;                          // a capacity figure that must travel with the memory
    virtual bool     handles_die_on_assign() { return true; }
    virtual bool     lifo_release() { return false; }
    virtual const void* tracker_addr() { return nullptr; }   // deeply tracked types: the tracker inside this object ...
    virtual const void* deep_ptr() { return nullptr; }        // ... and the tracker the block source deep inside reports to
    virtual bool     is_source() { return false; }      // block sources hand their blocks to the caller, who must return them first
};

template <class T> struct ops;   // per type: make(slot), take, give, figure
template <class T> struct deep { static const void* own(T&) { return nullptr; } static const void* ptr(T&) { return nullptr; } };
// every object is built over its own, distinguishable upstream source (tag = slot + 1): after a move, a move assignment or a
// swap each block must go back through the source it came from (the instrumented upstream reports U!foreign otherwise)
static int g_make_slot = 0;
static up_alloc tagged() { up_alloc a; a.tag = g_make_slot + 1; return a; }

template <class T>
struct subject_impl : subject
{
    T* obj;
    explicit subject_impl(T* o) : obj(o) {}
    subject* move_construct(void* slot) override { return new subject_impl<T>(new (slot) T(std::move(*obj))); }
    void     move_assign_from(subject& other) override { *obj = std::move(*static_cast<subject_impl<T>&>(other).obj); }
    void     swap_with(subject& other) override { using std::swap; swap(*obj, *static_cast<subject_impl<T>&>(other).obj); }
    bool     take(handle& h, std::size_t n) override { return ops<T>::take(*obj, h, n); }
    void     give(handle& h) override { ops<T>::give(*obj, h); }
    void     destroy() override { obj->~T(); }
    std::size_t figure() override { return ops<T>::figure(*obj); }
    bool     lifo_release() override { return ops<T>::lifo; }
    bool     is_source() override { return ops<T>::source; }
    const void* tracker_addr() override { return deep<T>::own(*obj); }
    const void* deep_ptr() override { return deep<T>::ptr(*obj); }
};

// ---- pools
template <class PT> struct ops<memory_pool<PT, up_alloc>>
{
    using T = memory_pool<PT, up_alloc>; static constexpr bool lifo = false; static constexpr bool source = false;
    static T* make(void* s) { return new (s) T(16, 16 + 16 * 6, tagged()); }
    static bool take(T& t, handle& h, std::size_t) { h.p = t.allocate_node(); h.size = 16; return true; }
    static void give(T& t, handle& h) { t.deallocate_node(h.p); }
    static std::size_t figure(T& t) { return t.capacity_left(); }
};
template <> struct ops<memory_pool<small_node_pool, up_alloc>>
{
    using T = memory_pool<small_node_pool, up_alloc>; static constexpr bool lifo = false; static constexpr bool source = false;
    static T* make(void* s) { return new (s) T(8, 400, tagged()); }
    static bool take(T& t, handle& h, std::size_t) { h.p = t.allocate_node(); h.size = 8; return true; }
    static void give(T& t, handle& h) { t.deallocate_node(h.p); }
    static std::size_t figure(T& t) { return t.capacity_left(); }
};
template <class PT> struct ops<memory_pool_collection<PT, identity_buckets, up_alloc>>
{
    using T = memory_pool_collection<PT, identity_buckets, up_alloc>; static constexpr bool lifo = false; static constexpr bool source = false;
    // collections of different slots differ in their maximum node size: it belongs to what a move hands over
    static T* make(void* s) { return new (s) T(g_make_slot % 2 ? 64 : 32, 4096, tagged()); }
    static bool take(T& t, handle& h, std::size_t n) { std::size_t sz = 8 + n % (t.max_node_size() - 7); h.p = t.allocate_node(sz); h.size = sz; return true; }
    static void give(T& t, handle& h) { t.deallocate_node(h.p, h.size); }
    static std::size_t figure(T& t) { return t.capacity_left() * 128 + t.max_node_size(); }
};
// ---- stacks
template <class BA> struct ops<memory_stack<BA>>
{
    using T = memory_stack<BA>; static constexpr bool lifo = true; static constexpr bool source = false;
    static T* make(void* s) { return new (s) T(256, tagged()); }
    static bool take(T& t, handle& h, std::size_t n) { std::size_t sz = 1 + n % 150; h.p = t.allocate(sz, 8); h.size = sz; return true; }
    static void give(T&, handle&) {}       // stack memory is released by destruction (or unwinding, exercised under C06)
    static std::size_t figure(T& t) { return t.capacity_left(); }
};
template <> struct ops<iteration_allocator<2, up_alloc>>
{
    using T = iteration_allocator<2, up_alloc>; static constexpr bool lifo = true; static constexpr bool source = false;
    static T* make(void* s) { return new (s) T(1024, tagged()); }
    static bool take(T& t, handle& h, std::size_t n) { std::size_t sz = 1 + n % 40; h.p = t.try_allocate(sz, 8); h.size = sz; return h.p != nullptr; }
    static void give(T&, handle&) {}
    static std::size_t figure(T& t) { return t.capacity_left(); }
};
// ---- a deeply tracked stack: the tracker object travels inside the allocator object, and the block source deep inside holds a
// pointer to it.  After every move that pointer must refer to the tracker of the object that owns the memory now: an event
// delivered to the tracker of a moved-from (or destroyed) object is reported as a "corrupt" line
struct live_tracker
{
    static std::vector<const live_tracker*>& reg() { static std::vector<const live_tracker*> r; return r; }
    static const live_tracker*& last_growth() { static const live_tracker* p = nullptr; return p; }
    static const live_tracker*& last_node() { static const live_tracker* p = nullptr; return p; }
    static long& dangling() { static long d = 0; return d; }
    live_tracker() { reg().push_back(this); }
    live_tracker(live_tracker&&) noexcept { reg().push_back(this); }
    live_tracker& operator=(live_tracker&&) noexcept { return *this; }
    ~live_tracker() { auto it = std::find(reg().begin(), reg().end(), this); if (it != reg().end()) reg().erase(it); }
    void seen() const noexcept { if (std::find(reg().begin(), reg().end(), this) == reg().end()) ++dangling(); }
    void on_node_allocation(void*, std::size_t, std::size_t) noexcept { seen(); last_node() = this; }
    void on_array_allocation(void*, std::size_t, std::size_t, std::size_t) noexcept { seen(); last_node() = this; }
    void on_node_deallocation(void*, std::size_t, std::size_t) noexcept { seen(); }
    void on_array_deallocation(void*, std::size_t, std::size_t, std::size_t) noexcept { seen(); }
    void on_allocator_growth(void*, std::size_t) noexcept { seen(); last_growth() = this; }
    void on_allocator_shrinking(void*, std::size_t) noexcept { seen(); }
};
using tracked_stack_t = deeply_tracked_allocator<live_tracker, memory_stack<up_alloc>>;
template <> struct ops<tracked_stack_t>
{
    using T = tracked_stack_t; static constexpr bool lifo = true; static constexpr bool source = false;
    static T* make(void* s) { return new (s) T(live_tracker{}, typename T::allocator_type(256, tagged())); }
    static void verify(const char* what) { if (live_tracker::dangling()) { std::printf("corrupt tracker: %ld event(s) of a live allocator were delivered to the tracker of a destroyed object (%s)\n", live_tracker::dangling(), what); live_tracker::dangling() = 0; } }
    static bool take(T& t, handle& h, std::size_t n)
    {
        std::size_t sz = 1 + n % 150; std::size_t blocks = t.get_allocator().arena_.size();
        live_tracker::last_growth() = nullptr; live_tracker::last_node() = nullptr;
        h.p = t.allocate_node(sz, 8); h.size = sz;
        if (live_tracker::last_node() != &t.get_tracker()) std::printf("corrupt tracker: the allocation was not reported to the tracker of the object that owns the memory\n");
        if (t.get_allocator().arena_.size() > blocks && live_tracker::last_growth() != &t.get_tracker())
            std::printf("corrupt tracker: the growth of the allocator was %s\n", live_tracker::last_growth() ? "reported to the tracker of another (moved-from) object" : "not reported to any tracker");
        verify("allocation");
        return true;
    }
    static void give(T&, handle&) {}
    static std::size_t figure(T& t) { verify("capacity query"); return t.get_allocator().capacity_left(); }
};
template <> struct deep<tracked_stack_t>
{
    static const void* own(tracked_stack_t& t) { return &t.get_tracker(); }
    static const void* ptr(tracked_stack_t& t) { return t.get_allocator().arena_.get_allocator().tracker_; }
};
// ---- arenas: the handle is a block
template <class BA, bool C> struct ops<memory_arena<BA, C>>
{
    using T = memory_arena<BA, C>; static constexpr bool lifo = true; static constexpr bool source = false;
    static T* make(void* s) { return new (s) T(256, tagged()); }
    static bool take(T& t, handle& h, std::size_t) { if (t.size() >= 5 || t.next_block_size() > (1u << 16)) return false; h.blk = t.allocate_block(); h.p = h.blk.memory; h.size = h.blk.size < 64 ? h.blk.size : 64; return true; }
    static void give(T& t, handle&) { t.deallocate_block(); }
    static std::size_t figure(T& t) { return t.size() * 1000 + t.cache_size(); }
};
// ---- block sources: the blocks belong to the caller
template <> struct ops<growing_block_allocator<up_alloc>>
{
    using T = growing_block_allocator<up_alloc>; static constexpr bool lifo = false; static constexpr bool source = true;
    static T* make(void* s) { return new (s) T(128, tagged()); }
    static bool take(T& t, handle& h, std::size_t) { if (t.next_block_size() > 4096) return false; h.blk = t.allocate_block(); h.p = h.blk.memory; h.size = 64; return true; }
    static void give(T& t, handle& h) { t.deallocate_block(h.blk); }
    static std::size_t figure(T& t) { return t.next_block_size(); }
};
template <> struct ops<fixed_block_allocator<up_alloc>>
{
    using T = fixed_block_allocator<up_alloc>; static constexpr bool lifo = false; static constexpr bool source = true;
    static T* make(void* s) { return new (s) T(512, tagged()); }
    static bool take(T& t, handle& h, std::size_t) { if (t.next_block_size() == 0) return false; h.blk = t.allocate_block(); h.p = h.blk.memory; h.size = 64; return true; }
    static void give(T& t, handle& h) { t.deallocate_block(h.blk); }
    static std::size_t figure(T& t) { return t.next_block_size(); }
};
static static_allocator_storage<1 << 15> g_static[4]; static int g_static_next = 0;
template <> struct ops<static_block_allocator>
{
    using T = static_block_allocator; static constexpr bool lifo = true; static constexpr bool source = true;
    static T* make(void* s) { return new (s) T(1024, g_static[g_static_next++ % 4]); }
    static bool take(T& t, handle& h, std::size_t) { try { h.blk = t.allocate_block(); } catch (...) { return false; } h.p = h.blk.memory; h.size = 64; return true; }
    static void give(T& t, handle& h) { t.deallocate_block(h.blk); }
    static std::size_t figure(T& t) { return t.cur_ ? std::size_t(t.end_ - t.cur_) : 0u; }      // bytes left in the storage it owns: must travel with a move / swap
};
template <> struct ops<virtual_block_allocator>
{
    using T = virtual_block_allocator; static constexpr bool lifo = true; static constexpr bool source = true;
    static T* make(void* s) { return new (s) T(4096, 6); }
    static bool take(T& t, handle& h, std::size_t) { try { h.blk = t.allocate_block(); } catch (...) { return false; } h.p = h.blk.memory; h.size = 64; return true; }
    static void give(T& t, handle& h) { t.deallocate_block(h.blk); }
    static std::size_t figure(T& t) { return t.capacity_left(); }
};
// ---- the free lists themselves (their memory are the nodes inserted from a private buffer)
alignas(16) static char g_listmem[4][4096];
template <class L> struct list_ops
{
    static constexpr bool lifo = false; static constexpr bool source = false;
    static bool take(L& t, handle& h, std::size_t) { if (t.empty()) return false; h.p = t.allocate(); h.size = t.node_size(); return true; }
    static void give(L& t, handle& h) { t.deallocate(h.p); }
    static std::size_t figure(L& t) { return t.capacity(); }
};
static int g_list_next = 0;
template <> struct ops<detail::free_memory_list> : list_ops<detail::free_memory_list>
{ static detail::free_memory_list* make(void* s) { auto* l = new (s) detail::free_memory_list(16); l->insert(g_listmem[g_list_next++ % 4], 16 * 20); return l; } };
template <> struct ops<detail::ordered_free_memory_list> : list_ops<detail::ordered_free_memory_list>
{ static detail::ordered_free_memory_list* make(void* s) { auto* l = new (s) detail::ordered_free_memory_list(16); l->insert(g_listmem[g_list_next++ % 4], 16 * 20); return l; } };
template <> struct ops<detail::small_free_memory_list> : list_ops<detail::small_free_memory_list>
{ static detail::small_free_memory_list* make(void* s) { auto* l = new (s) detail::small_free_memory_list(8); l->insert(g_listmem[g_list_next++ % 4], 1024); return l; } };

template <class T>
static int run(bool high, const std::string& header)
{
    auto& U = up();
    subject* slots[4] = {nullptr, nullptr, nullptr, nullptr};
    char state[4] = {'E', 'E', 'E', 'E'};
    std::vector<handle> hs; unsigned next_pat = 7;
    auto slotmem = [&]() { return high ? U.place_high(sizeof(T) + 64) : U.place(sizeof(T) + 64); };
    auto status = [&]() { std::string s; for (int k = 0; k < 4; ++k) { char b[48]; std::snprintf(b, sizeof b, " %d:%c:%zu", k, state[k], state[k] == 'L' ? slots[k]->figure() : std::size_t(0)); s += b;
            if (state[k] != 'E' && slots[k]->tracker_addr())
            {   // fourth field: the slot whose tracker the deep pointer of this object refers to (n: null, x: no object's tracker)
                const void* d = slots[k]->deep_ptr(); std::string tp = d ? "x" : "n";
                for (int j = 0; j < 4; ++j) if (d && state[j] != 'E' && slots[j]->tracker_addr() == d) tp = std::to_string(j);
                s += ":" + tp;
            } } return s; };
    auto check = [&](const char* when) {
        for (auto& h : hs) { auto q = static_cast<unsigned char*>(h.p); for (std::size_t i = 0; i < h.size; ++i) if (q[i] != (unsigned char)(h.pat + 5 * i)) { std::printf("corrupt owner=%d at=%zu %s\n", h.owner, i, when); break; } }
    };
    std::printf("%s = ok | | asserts=%d\n", header.c_str(), FOONATHAN_MEMORY_DEBUG_ASSERT);
    std::string line;
    while (std::getline(std::cin, line))
    {
        std::istringstream is(line); std::string op; is >> op; std::string res;
        int i = -1, j = -1;
        if (op == "new") { is >> i; if (i < 0 || i > 3 || state[i] != 'E') { std::printf("%s = skipped\n", line.c_str()); continue; }
            try { g_make_slot = i; slots[i] = new subject_impl<T>(ops<T>::make(slotmem())); state[i] = 'L'; res = "made"; } catch (...) { res = std::string("throw ") + classify_current(); } }
        else if (op == "use")
        {
            std::size_t n; is >> i >> n; if (i < 0 || i > 3 || state[i] != 'L') { std::printf("%s = skipped\n", line.c_str()); continue; }
            std::size_t got = 0;
            for (std::size_t k = 0; k < n; ++k)
            {
                handle h{nullptr, 0, next_pat, i, {}}; next_pat = next_pat * 31 + 11;
                bool ok = false; try { ok = slots[i]->take(h, next_pat); } catch (...) { ok = false; }
                if (!ok) break;
                auto q = static_cast<unsigned char*>(h.p); for (std::size_t x = 0; x < h.size; ++x) q[x] = (unsigned char)(h.pat + 5 * x);
                hs.push_back(h); ++got;
            }
            res = "took " + std::to_string(got);
        }
        else if (op == "fill")
        {   // take memory until the capacity figure is exactly zero (pools, lists): a full allocator is moved next
            is >> i; if (i < 0 || i > 3 || state[i] != 'L') { std::printf("%s = skipped\n", line.c_str()); continue; }
            std::size_t got = 0;
            while (slots[i]->figure() != 0 && got < 3000)
            {
                handle h{nullptr, 0, next_pat, i, {}}; next_pat = next_pat * 31 + 11;
                bool ok = false; try { ok = slots[i]->take(h, next_pat); } catch (...) { ok = false; }
                if (!ok) break;
                auto q = static_cast<unsigned char*>(h.p); for (std::size_t x = 0; x < h.size; ++x) q[x] = (unsigned char)(h.pat + 5 * x);
                hs.push_back(h); ++got;
            }
            res = "took " + std::to_string(got);
        }
        else if (op == "rel" || op == "relp")
        {   // what lives in slot i's memory goes back through the object that owns it now.
            // rel i [seed]: everything, newest first for LIFO types, in a seeded shuffled order otherwise;  relp i a b: only every b-th handle
            std::size_t a = 0, b = 1, seed = 0; is >> i; if (op == "relp") is >> a >> b; else is >> seed;
            if (i < 0 || i > 3 || state[i] != 'L' || b == 0) { std::printf("%s = skipped\n", line.c_str()); continue; }
            check("before-release");
            std::vector<std::size_t> idx; std::size_t cnt = 0;
            for (std::size_t k = 0; k < hs.size(); ++k) if (hs[k].owner == i) { if (cnt % b == a % b) idx.push_back(k); ++cnt; }
            if (slots[i]->lifo_release()) { if (op == "relp") { std::printf("%s = skipped\n", line.c_str()); continue; } std::reverse(idx.begin(), idx.end()); }
            else { std::reverse(idx.begin(), idx.end()); if (seed) for (std::size_t k = idx.size(); k > 1; --k) { seed = seed * 6364136223846793005ULL + 1442695040888963407ULL; std::swap(idx[k - 1], idx[(seed >> 33) % k]); } }
            std::vector<handle> gone; for (auto k : idx) gone.push_back(hs[k]);
            std::vector<std::size_t> sorted = idx; std::sort(sorted.begin(), sorted.end());
            for (std::size_t k = sorted.size(); k-- > 0;) hs.erase(hs.begin() + long(sorted[k]));
            for (auto& h : gone) slots[i]->give(h);
            res = "released " + std::to_string(gone.size());
        }
        else if (op == "mc")
        {
            is >> i >> j; if (i < 0 || j < 0 || i > 3 || j > 3 || i == j || state[i] == 'E' || state[j] != 'E') { std::printf("%s = skipped\n", line.c_str()); continue; }
            slots[j] = slots[i]->move_construct(slotmem()); state[j] = state[i]; state[i] = 'M';
            for (auto& h : hs) if (h.owner == i) h.owner = j;
            res = "moved";
        }
        else if (op == "ma")
        {
            is >> i >> j; if (i < 0 || j < 0 || i > 3 || j > 3 || i == j || state[i] == 'E' || state[j] == 'E') { std::printf("%s = skipped\n", line.c_str()); continue; }
            // what lived in j's memory dies with the assignment (its blocks go back): forget those handles first
            // (block sources do not own the blocks they handed out: those handles stay valid and are released through whoever can)
            for (std::size_t k = hs.size(); k-- > 0;) if (hs[k].owner == j) { if (state[j] == 'L' && slots[j]->is_source()) slots[j]->give(hs[k]); hs.erase(hs.begin() + long(k)); }
            slots[j]->move_assign_from(*slots[i]); state[j] = state[i]; state[i] = 'M';
            for (auto& h : hs) if (h.owner == i) h.owner = j;
            res = "assigned";
        }
        else if (op == "sw")
        {
            is >> i >> j; if (i < 0 || j < 0 || i > 3 || j > 3 || i == j || state[i] == 'E' || state[j] == 'E') { std::printf("%s = skipped\n", line.c_str()); continue; }
            slots[i]->swap_with(*slots[j]); std::swap(state[i], state[j]);
            for (auto& h : hs) { if (h.owner == i) h.owner = j; else if (h.owner == j) h.owner = i; }
            res = "swapped";
        }
        else if (op == "del")
        {
            is >> i; if (i < 0 || i > 3 || state[i] == 'E') { std::printf("%s = skipped\n", line.c_str()); continue; }
            for (std::size_t k = hs.size(); k-- > 0;) if (hs[k].owner == i) { if (state[i] == 'L' && slots[i]->is_source()) slots[i]->give(hs[k]); hs.erase(hs.begin() + long(k)); }
            slots[i]->destroy(); delete slots[i]; slots[i] = nullptr; res = std::string("destroyed ") + state[i]; state[i] = 'E';
        }
        else if (op == "chk") { res = "checked"; }
        else continue;
        check(line.c_str());
        std::printf("%s = %s |%s |%s\n", line.c_str(), res.c_str(), U.take().c_str(), status().c_str());
        std::fflush(stdout);
    }
    for (int k = 0; k < 4; ++k) if (state[k] != 'E')
    {
        for (std::size_t x = hs.size(); x-- > 0;) if (hs[x].owner == k) { if (state[k] == 'L' && slots[k]->is_source()) slots[k]->give(hs[x]); hs.erase(hs.begin() + long(x)); }
        slots[k]->destroy(); delete slots[k];
    }
    std::printf("end = done |%s | live_blocks=%zu errors=%ld stale_writes=%zu leaks=%ld\n", U.take().c_str(), U.live_count(), U.errors, U.stale_writes(), hc().leak);
    return 0;
}

int main()
{
    install_quiet_handlers();
    up().init();
    std::string header; if (!std::getline(std::cin, header)) return 1;
    std::istringstream hs(header); std::string mode, type, pos; hs >> mode >> type >> pos;
    bool high = pos == "high";
    if (type == "pool_node") return run<memory_pool<node_pool, up_alloc>>(high, header);
    if (type == "pool_array") return run<memory_pool<array_pool, up_alloc>>(high, header);
    if (type == "pool_small") return run<memory_pool<small_node_pool, up_alloc>>(high, header);
    if (type == "coll_node") return run<memory_pool_collection<node_pool, identity_buckets, up_alloc>>(high, header);
    if (type == "coll_array") return run<memory_pool_collection<array_pool, identity_buckets, up_alloc>>(high, header);
    if (type == "coll_small") return run<memory_pool_collection<small_node_pool, identity_buckets, up_alloc>>(high, header);
    if (type == "stack") return run<memory_stack<up_alloc>>(high, header);
    if (type == "stack_fixed") return run<memory_stack<fixed_block_allocator<up_alloc>>>(high, header);
    if (type == "stack_tracked") return run<tracked_stack_t>(high, header);
    if (type == "iteration") return run<iteration_allocator<2, up_alloc>>(high, header);
    if (type == "arena_cached") return run<memory_arena<growing_block_allocator<up_alloc>, true>>(high, header);
    if (type == "arena_uncached") return run<memory_arena<growing_block_allocator<up_alloc>, false>>(high, header);
    if (type == "src_growing") return run<growing_block_allocator<up_alloc>>(high, header);
    if (type == "src_fixed") return run<fixed_block_allocator<up_alloc>>(high, header);
    if (type == "src_static") return run<static_block_allocator>(high, header);
    if (type == "src_virtual") return run<virtual_block_allocator>(high, header);
    if (type == "list_unordered") return run<detail::free_memory_list>(high, header);
    if (type == "list_ordered") return run<detail::ordered_free_memory_list>(high, header);
    if (type == "list_small") return run<detail::small_free_memory_list>(high, header);
    return 2;
}
