// C10 harness.
//  mode "probe": what every node container actually asks its allocator for, against X_node_size<T> (regenerated header)
//  mode "eq"   : std_allocator equality against "memory from one may be released through the other"
//  mode "prog" : container programs over two origin-tracking allocators (A and B): lines "<kind> <op> i [j] [v]"
//                four containers per kind, 0/1 bound to A, 2/3 bound to B; a mirror on std::allocator checks the contents
#include "hcommon.hpp"
#include "container.hpp"
#include "std_allocator.hpp"
#include "smart_ptr.hpp"
#include "memory_pool.hpp"
#include "heap_allocator.hpp"
#include <map>
#include <set>
#include <list>
#include <forward_list>
#include <unordered_map>
#include <unordered_set>
#include <deque>
#include <vector>
#include <string>
#include <algorithm>
#include <memory>
#include "heap_allocator.hpp"
#include "new_allocator.hpp"
using namespace foonathan::memory;
using namespace verif;

// ---------------------------------------------------------------- origin tracking leaf
struct rec { int origin; std::size_t bytes, align; };
static std::map<void*, rec> g_live;
static long g_errors = 0, g_allocs = 0, g_deallocs = 0;
static std::string g_err;
struct origin_leaf
{
    using is_stateful = std::true_type;
    int id;
    explicit origin_leaf(int i) : id(i) {}
    origin_leaf(const origin_leaf&) = delete;
    void* allocate_node(std::size_t s, std::size_t a) { void* p = ::operator new(s ? s : 1, std::align_val_t(a < 16 ? 16 : a)); g_live[p] = {id, s, a}; ++g_allocs; return p; }
    void* allocate_array(std::size_t c, std::size_t s, std::size_t a) { return allocate_node(c * s, a); }
    void deallocate_node(void* p, std::size_t s, std::size_t a) noexcept
    {
        ++g_deallocs;
        auto it = g_live.find(p);
        char b[200];
        if (it == g_live.end()) { ++g_errors; std::snprintf(b, sizeof b, "allocator %c was handed memory nobody allocated", 'A' + id); if (g_err.empty()) g_err = b; return; }
        if (it->second.origin != id) { ++g_errors; std::snprintf(b, sizeof b, "memory obtained from allocator %c (%zu bytes) was released through allocator %c", 'A' + it->second.origin, it->second.bytes, 'A' + id); if (g_err.empty()) g_err = b; }
        else if (it->second.bytes != s || it->second.align != a) { ++g_errors; std::snprintf(b, sizeof b, "allocated as (%zu,%zu), released as (%zu,%zu)", it->second.bytes, it->second.align, s, a); if (g_err.empty()) g_err = b; }
        ::operator delete(p, std::align_val_t(it->second.align < 16 ? 16 : it->second.align));
        g_live.erase(it);
    }
    void deallocate_array(void* p, std::size_t c, std::size_t s, std::size_t a) noexcept { deallocate_node(p, c * s, a); }
    std::size_t max_node_size() const { return std::size_t(-1); }
    std::size_t max_array_size() const { return std::size_t(-1); }
    std::size_t max_alignment() const { return 4096; }
};
static origin_leaf LA(0), LB(1);

// a copyable handle to an origin leaf, declared a shared allocator: std_allocator stores it by value
struct shared_origin
{
    using is_stateful = std::true_type;
    origin_leaf* o;
    void* allocate_node(std::size_t s, std::size_t a) { return o->allocate_node(s, a); }
    void* allocate_array(std::size_t c, std::size_t s, std::size_t a) { return o->allocate_array(c, s, a); }
    void deallocate_node(void* p, std::size_t s, std::size_t a) noexcept { o->deallocate_node(p, s, a); }
    void deallocate_array(void* p, std::size_t c, std::size_t s, std::size_t a) noexcept { o->deallocate_array(p, c, s, a); }
    std::size_t max_node_size() const { return std::size_t(-1); }
    std::size_t max_array_size() const { return std::size_t(-1); }
    std::size_t max_alignment() const { return 4096; }
    friend bool operator==(const shared_origin& a, const shared_origin& b) noexcept { return a.o == b.o; }
    friend bool operator!=(const shared_origin& a, const shared_origin& b) noexcept { return a.o != b.o; }
};
namespace foonathan { namespace memory { template <> struct is_shared_allocator<shared_origin> : std::true_type {}; } }
static origin_leaf* leaf_of(const origin_leaf& l) { return const_cast<origin_leaf*>(&l); }
static origin_leaf* leaf_of(const shared_origin& l) { return l.o; }
// a handle that declares it does not want to be propagated: std_allocator propagates all the same (documented: always)
struct nonprop_origin : shared_origin
{
    using propagate_on_container_swap = std::false_type;
    using propagate_on_container_move_assignment = std::false_type;
    using propagate_on_container_copy_assignment = std::false_type;
};
namespace foonathan { namespace memory { template <> struct is_shared_allocator<nonprop_origin> : std::true_type {}; } }
static origin_leaf* leaf_of(const nonprop_origin& l) { return l.o; }
template <class T> static bool is_A(const std_allocator<T, origin_leaf>& a) { return &a.get_allocator() == &LA; }
template <class T> static bool is_A(const std_allocator<T, shared_origin>& a) { return a.get_allocator().o == &LA; }
template <class T> static bool is_A(const std_allocator<T, nonprop_origin>& a) { return a.get_allocator().o == &LA; }
template <class T> static bool is_A(const any_std_allocator<T>& a) { return a == any_std_allocator<T>(LA); }
template <class A> static A make_alloc(origin_leaf& l, A*);
template <class T> static std_allocator<T, nonprop_origin> make_alloc(origin_leaf& l, std_allocator<T, nonprop_origin>*) { nonprop_origin h; h.o = &l; return std_allocator<T, nonprop_origin>(h); }
template <class T> static any_std_allocator<T> make_alloc(origin_leaf& l, any_std_allocator<T>*) { return any_std_allocator<T>(l); }
template <class T> static std_allocator<T, origin_leaf> make_alloc(origin_leaf& l, std_allocator<T, origin_leaf>*) { return std_allocator<T, origin_leaf>(l); }
template <class T> static std_allocator<T, shared_origin> make_alloc(origin_leaf& l, std_allocator<T, shared_origin>*) { return std_allocator<T, shared_origin>(shared_origin{&l}); }

// ---------------------------------------------------------------- probe
static std::size_t g_probe_node = 0;
template <class T> struct probe_alloc
{
    using value_type = T;
    probe_alloc() = default;
    template <class U> probe_alloc(const probe_alloc<U>&) {}
    T* allocate(std::size_t n) { if (n == 1 && sizeof(T) > g_probe_node) g_probe_node = sizeof(T); return static_cast<T*>(::operator new(n * sizeof(T), std::align_val_t(alignof(T)))); }
    void deallocate(T* p, std::size_t) { ::operator delete(p, std::align_val_t(alignof(T))); }
    template <class U> bool operator==(const probe_alloc<U>&) const { return true; }
    template <class U> bool operator!=(const probe_alloc<U>&) const { return false; }
};
template <std::size_t S, std::size_t A> struct alignas(A) elem
{
    unsigned char d[S];
    elem(int v = 0) { for (std::size_t i = 0; i < S; ++i) d[i] = (unsigned char)(v >> (8 * (i % 4))); }
    bool operator<(const elem& o) const { return std::lexicographical_compare(d, d + S, o.d, o.d + S); }
    bool operator==(const elem& o) const { return std::equal(d, d + S, o.d); }
};
struct slow_hash { template <class T> std::size_t operator()(const T& t) const { std::size_t h = 0; for (auto c : t.d) h = h * 131 + c; return h; } };   // not noexcept: the hash code is cached in the node
struct str_hash { std::size_t operator()(const std::string& s) const { return std::hash<std::string>()(s); } };

#if !defined(FOONATHAN_MEMORY_NO_NODE_SIZE)
template <class T> static void probe_one(const char* tn, std::size_t S, std::size_t A)
{
    auto line = [&](const char* c, std::size_t promised) { std::printf("probe %s %s %zu %zu actual=%zu promised=%zu\n", c, tn, S, A, g_probe_node, promised); };
    { g_probe_node = 0; std::forward_list<T, probe_alloc<T>> c; c.push_front(T(1)); line("forward_list", forward_list_node_size<T>::value); }
    { g_probe_node = 0; std::list<T, probe_alloc<T>> c; c.push_back(T(1)); line("list", list_node_size<T>::value); }
    { g_probe_node = 0; std::set<T, std::less<T>, probe_alloc<T>> c; c.insert(T(1)); line("set", set_node_size<T>::value); }
    { g_probe_node = 0; std::multiset<T, std::less<T>, probe_alloc<T>> c; c.insert(T(1)); line("multiset", multiset_node_size<T>::value); }
    { g_probe_node = 0; std::unordered_set<T, slow_hash, std::equal_to<T>, probe_alloc<T>> c; c.insert(T(1)); line("unordered_set", unordered_set_node_size<T>::value); }
    { g_probe_node = 0; std::unordered_multiset<T, slow_hash, std::equal_to<T>, probe_alloc<T>> c; c.insert(T(1)); line("unordered_multiset", unordered_multiset_node_size<T>::value); }
    { using P = std::pair<const T, T>; g_probe_node = 0; std::map<T, T, std::less<T>, probe_alloc<P>> c; c.emplace(T(1), T(2)); line("map", map_node_size<P>::value); }
    { using P = std::pair<const T, T>; g_probe_node = 0; std::multimap<T, T, std::less<T>, probe_alloc<P>> c; c.emplace(T(1), T(2)); line("multimap", multimap_node_size<P>::value); }
    { using P = std::pair<const T, T>; g_probe_node = 0; std::unordered_map<T, T, slow_hash, std::equal_to<T>, probe_alloc<P>> c; c.emplace(T(1), T(2)); line("unordered_map", unordered_map_node_size<P>::value); }
    { using P = std::pair<const T, T>; g_probe_node = 0; std::unordered_multimap<T, T, slow_hash, std::equal_to<T>, probe_alloc<P>> c; c.emplace(T(1), T(2)); line("unordered_multimap", unordered_multimap_node_size<P>::value); }
    { g_probe_node = 0; auto p = std::allocate_shared<T>(probe_alloc<T>(), 1); line("shared_ptr_stateless", shared_ptr_stateless_node_size<T>::value); }
}
template <std::size_t A> static void probe_align()
{
    probe_one<elem<A, A>>("elem", A, A); probe_one<elem<2 * A, A>>("elem", 2 * A, A); probe_one<elem<3 * A, A>>("elem", 3 * A, A);
    probe_one<elem<7 * A, A>>("elem", 7 * A, A); probe_one<elem<(16 * A > 128 ? 128 : 16 * A), A>>("elem", 16 * A > 128 ? 128 : 16 * A, A);
}
static int run_probe()
{
    probe_align<1>(); probe_align<2>(); probe_align<4>(); probe_align<8>(); probe_align<16>();
    probe_one<elem<5, 1>>("elem", 5, 1); probe_one<elem<12, 4>>("elem", 12, 4); probe_one<elem<24, 8>>("elem", 24, 8); probe_one<elem<100, 4>>("elem", 100, 4);
    // keys whose hash code the library caches in the node (std::string) and plain integral keys
    { using T = std::string; auto line = [&](const char* c, std::size_t promised) { std::printf("probe %s string %zu %zu actual=%zu promised=%zu\n", c, sizeof(T), alignof(T), g_probe_node, promised); };
      { g_probe_node = 0; std::unordered_set<T, std::hash<T>, std::equal_to<T>, probe_alloc<T>> c; c.insert("x"); line("unordered_set", unordered_set_node_size<T>::value); }
      { using P = std::pair<const T, int>; g_probe_node = 0; std::unordered_map<T, int, std::hash<T>, std::equal_to<T>, probe_alloc<P>> c; c.emplace("x", 1); line("unordered_map", unordered_map_node_size<P>::value); }
      { g_probe_node = 0; std::set<T, std::less<T>, probe_alloc<T>> c; c.insert("x"); line("set", set_node_size<T>::value); }
      { g_probe_node = 0; std::list<T, probe_alloc<T>> c; c.push_back("x"); line("list", list_node_size<T>::value); } }
    { using T = long; auto line = [&](const char* c, std::size_t promised) { std::printf("probe %s long %zu %zu actual=%zu promised=%zu\n", c, sizeof(T), alignof(T), g_probe_node, promised); };
      { g_probe_node = 0; std::unordered_set<T, std::hash<T>, std::equal_to<T>, probe_alloc<T>> c; c.insert(1); line("unordered_set", unordered_set_node_size<T>::value); }
      { using P = std::pair<const T, T>; g_probe_node = 0; std::unordered_map<T, T, std::hash<T>, std::equal_to<T>, probe_alloc<P>> c; c.emplace(1, 1); line("unordered_map", unordered_map_node_size<P>::value); } }
    // a pool sized with the constant serves the container
    {
        using T = elem<24, 8>; memory_pool<> pool(list_node_size<T>::value, 4096); bool ok = true;
        try { list<T, memory_pool<>> l(pool); for (int i = 0; i < 50; ++i) l.push_back(T(i)); } catch (...) { ok = false; }
        std::printf("poolserve list elem 24 8 %s\n", ok ? "ok" : "REFUSED");
        using P = std::pair<const std::string, int>; memory_pool<> pool2(unordered_map_node_size<P>::value, 8192); ok = true;
        try { std::unordered_map<std::string, int, std::hash<std::string>, std::equal_to<std::string>, std_allocator<P, memory_pool<>>> m(std_allocator<P, memory_pool<>>{pool2}); m.reserve(0); for (int i = 0; i < 20; ++i) m.emplace(std::to_string(i), i); }
        catch (foonathan::memory::bad_node_size&) { ok = false; } catch (...) { }
        std::printf("poolserve unordered_map string_int %s\n", ok ? "ok" : "REFUSED");
    }
    return 0;
}
#else
static int run_probe() { std::printf("probe unavailable: no node size header\n"); return 0; }
#endif

// ---------------------------------------------------------------- equality
static int run_eq()
{
    auto show = [&](const char* what, bool eq, bool same) { std::printf("eq %s equal=%d same_resource=%d\n", what, int(eq), int(same)); };
    std_allocator<int, origin_leaf> a1(LA), a2(LA), b1(LB);
    show("ref A A", a1 == a2, true); show("ref A B", a1 == b1, false);
    std_allocator<long, origin_leaf> ra(a1);   // rebound copy
    show("ref A rebind(A)", a1 == ra, true); show("ref B rebind(A)", b1 == ra, false);
    std_allocator<int, origin_leaf> ca(a1); show("ref A copy(A)", ca == a1, true);
    std_allocator<int, heap_allocator> h1, h2; show("stateless heap heap", h1 == h2, true);
    any_std_allocator<int> x1(LA), x2(LA), y1(LB);
    show("any A A", x1 == x2, true); show("any A B", x1 == y1, false);
    any_std_allocator<long> xr(x1); show("any A rebind(A)", x1 == xr, true); show("any B rebind(A)", y1 == xr, false);
    any_std_allocator<int> xc(x1); show("any A copy(A)", xc == x1, true);
    // type-erased references to stateless allocators: equal exactly when they are of the same type, on either side
    heap_allocator hp; new_allocator nw;
    any_std_allocator<int> s1(hp), s2(hp), s3(nw);
    show("any heap heap", s1 == s2, true); show("any heap new", s1 == s3, false); show("any new heap", s3 == s1, false);
    show("any heap A", s1 == x1, false); show("any A heap", x1 == s1, false); show("any new B", s3 == y1, false); show("any B new", y1 == s3, false);
    std_allocator<int, shared_origin> sa(shared_origin{&LA}), sa2(shared_origin{&LA}), sb(shared_origin{&LB});
    show("ref shared(A) shared(A)", sa == sa2, true); show("ref shared(A) shared(B)", sa == sb, false);
    // type-erased references to shared allocators (stored by value behind the erasure): they know themselves whether they
    // share their memory -- two handles on the same leaf are equal, handles on different leaves are not
    shared_origin hA{&LA}, hA2{&LA}, hB{&LB};
    any_std_allocator<int> e1(hA), e2(hA2), e3(hB);
    show("any shared(A) shared(A)", e1 == e2, true); show("any shared(A) shared(B)", e1 == e3, false); show("any shared(B) shared(A)", e3 == e1, false);
    show("any shared(A) A", e1 == x1, false); show("any shared(A) heap", e1 == s1, false);
    any_std_allocator<long> er(e1); show("any shared(A) rebind(shared(A))", e1 == er, true); show("any shared(B) rebind(shared(A))", e3 == er, false);
    return 0;
}

// ---------------------------------------------------------------- programs
template <class C> struct kind_ops;
template <class C, class M> static std::vector<long> contents(const C& c) { std::vector<long> v(c.begin(), c.end()); return v; }

template <class C, class M, bool Sorted, class Ins, class InsM, class Er, class ErM>
static void run_kind(const char* name, const std::vector<std::vector<std::string>>& script, Ins ins, InsM insm, Er er, ErM erm, bool can_splice)
{
    using alloc_t = typename C::allocator_type;
    auto mk = [&](int k) { return new C(make_alloc(k < 2 ? LA : LB, static_cast<alloc_t*>(nullptr))); };
    C* c[4]; M m[4];
    for (int k = 0; k < 4; ++k) c[k] = mk(k);
    auto which = [&](int k) { return is_A(c[k]->get_allocator()) ? 'A' : 'B'; };
    auto same = [&](int k) {
        std::vector<long> x(c[k]->begin(), c[k]->end()), y(m[k].begin(), m[k].end());
        if (!Sorted) { std::sort(x.begin(), x.end()); std::sort(y.begin(), y.end()); }
        return x == y;
    };
    long lineno = 0;
    for (auto& t : script)
    {
        ++lineno;
        if (t.size() < 3 || t[0] != (name[1] == '_' ? name + 2 : name)) continue;
        const std::string& op = t[1]; int i = std::atoi(t[2].c_str()) & 3; int j = t.size() > 3 ? std::atoi(t[3].c_str()) & 3 : 0; long v = t.size() > 4 ? std::atol(t[4].c_str()) : (t.size() > 3 ? std::atol(t[3].c_str()) : 0);
        long e0 = g_errors;
        if (op == "ins") { ins(*c[i], v); insm(m[i], v); }
        else if (op == "erase") { er(*c[i]); erm(m[i]); }
        else if (op == "clear") { c[i]->clear(); m[i].clear(); }
        else if (op == "copy" && i != j) { *c[j] = *c[i]; m[j] = m[i]; }
        else if (op == "move" && i != j) { *c[j] = std::move(*c[i]); m[j] = std::move(m[i]); c[i]->clear(); m[i].clear(); }
        else if (op == "swap" && i != j) { using std::swap; swap(*c[i], *c[j]); swap(m[i], m[j]); }
        else if (op == "cc" && i != j) { delete c[j]; c[j] = new C(*c[i]); m[j] = m[i]; }
        else if (op == "mc" && i != j) { delete c[j]; c[j] = new C(std::move(*c[i])); m[j] = std::move(m[i]); c[i]->clear(); m[i].clear(); }
        else continue;
        bool ok = same(i) && same(j);
        std::printf("%s %s %d %d = %s errors=%ld | %c %c %c %c | %zu %zu %zu %zu%s%s\n", name, op.c_str(), i, j, ok ? "same" : "DIFFERENT", g_errors - e0, which(0), which(1), which(2), which(3),
                    std::size_t(std::distance(c[0]->begin(), c[0]->end())), std::size_t(std::distance(c[1]->begin(), c[1]->end())), std::size_t(std::distance(c[2]->begin(), c[2]->end())), std::size_t(std::distance(c[3]->begin(), c[3]->end())),
                    g_errors - e0 ? " :: " : "", g_errors - e0 ? g_err.c_str() : "");
        if (g_errors - e0) g_err.clear();
    }
    (void)can_splice;
    for (int k = 0; k < 4; ++k) delete c[k];
}

static int run_prog()
{
    std::vector<std::vector<std::string>> script; std::string line;
    while (std::getline(std::cin, line)) { std::istringstream is(line); std::vector<std::string> t; std::string x; while (is >> x) t.push_back(x); if (!t.empty()) script.push_back(t); }
    {
        using C = std::list<long, std_allocator<long, origin_leaf>>; using M = std::list<long>;
        run_kind<C, M, true>("list", script, [](C& c, long v) { c.push_back(v); }, [](M& c, long v) { c.push_back(v); }, [](C& c) { if (!c.empty()) c.pop_front(); }, [](M& c) { if (!c.empty()) c.pop_front(); }, true);
    }
    {
        using C = std::forward_list<long, std_allocator<long, origin_leaf>>; using M = std::forward_list<long>;
        run_kind<C, M, true>("forward_list", script, [](C& c, long v) { c.push_front(v); }, [](M& c, long v) { c.push_front(v); }, [](C& c) { if (!c.empty()) c.pop_front(); }, [](M& c) { if (!c.empty()) c.pop_front(); }, false);
    }
    {
        using C = std::set<long, std::less<long>, std_allocator<long, origin_leaf>>; using M = std::set<long>;
        run_kind<C, M, true>("set", script, [](C& c, long v) { c.insert(v); }, [](M& c, long v) { c.insert(v); }, [](C& c) { if (!c.empty()) c.erase(c.begin()); }, [](M& c) { if (!c.empty()) c.erase(c.begin()); }, false);
    }
    {
        using C = std::unordered_set<long, std::hash<long>, std::equal_to<long>, std_allocator<long, origin_leaf>>; using M = std::set<long>;
        run_kind<C, M, false>("unordered_set", script, [](C& c, long v) { c.insert(v); }, [](M& c, long v) { c.insert(v); }, [](C& c) { if (!c.empty()) c.erase(*std::min_element(c.begin(), c.end())); }, [](M& c) { if (!c.empty()) c.erase(c.begin()); }, false);
    }
    {
        using C = std::vector<long, std_allocator<long, origin_leaf>>; using M = std::vector<long>;
        run_kind<C, M, true>("vector", script, [](C& c, long v) { c.push_back(v); }, [](M& c, long v) { c.push_back(v); }, [](C& c) { if (!c.empty()) c.pop_back(); }, [](M& c) { if (!c.empty()) c.pop_back(); }, false);
    }
    {   // the same list and vector programs over a shared allocator (stored by value in std_allocator)
        using C = std::list<long, std_allocator<long, shared_origin>>; using M = std::list<long>;
        run_kind<C, M, true>("s_list", script, [](C& c, long v) { c.push_back(v); }, [](M& c, long v) { c.push_back(v); }, [](C& c) { if (!c.empty()) c.pop_front(); }, [](M& c) { if (!c.empty()) c.pop_front(); }, true);
    }
    {
        using C = std::vector<long, std_allocator<long, shared_origin>>; using M = std::vector<long>;
        run_kind<C, M, true>("s_vector", script, [](C& c, long v) { c.push_back(v); }, [](M& c, long v) { c.push_back(v); }, [](C& c) { if (!c.empty()) c.pop_back(); }, [](M& c) { if (!c.empty()) c.pop_back(); }, false);
    }
    {   // ... over a handle that declares propagate_on_container_* = false_type, and over type-erased references
        using C = std::list<long, std_allocator<long, nonprop_origin>>; using M = std::list<long>;
        run_kind<C, M, true>("p_list", script, [](C& c, long v) { c.push_back(v); }, [](M& c, long v) { c.push_back(v); }, [](C& c) { if (!c.empty()) c.pop_front(); }, [](M& c) { if (!c.empty()) c.pop_front(); }, true);
    }
    {
        using C = std::list<long, any_std_allocator<long>>; using M = std::list<long>;
        run_kind<C, M, true>("a_list", script, [](C& c, long v) { c.push_back(v); }, [](M& c, long v) { c.push_back(v); }, [](C& c) { if (!c.empty()) c.pop_front(); }, [](M& c) { if (!c.empty()) c.pop_front(); }, true);
    }
    {
        using C = std::vector<long, any_std_allocator<long>>; using M = std::vector<long>;
        run_kind<C, M, true>("a_vector", script, [](C& c, long v) { c.push_back(v); }, [](M& c, long v) { c.push_back(v); }, [](C& c) { if (!c.empty()) c.pop_back(); }, [](M& c) { if (!c.empty()) c.pop_back(); }, false);
    }
    {
        using C = std::deque<long, std_allocator<long, origin_leaf>>; using M = std::deque<long>;
        run_kind<C, M, true>("deque", script, [](C& c, long v) { c.push_back(v); }, [](M& c, long v) { c.push_back(v); }, [](C& c) { if (!c.empty()) c.pop_front(); }, [](M& c) { if (!c.empty()) c.pop_front(); }, false);
    }
    {
        using P = std::pair<const long, long>; using C = std::map<long, long, std::less<long>, std_allocator<P, origin_leaf>>;
        struct view { std::map<long, long> m; };
        // maps are compared through their keys
        std::vector<std::vector<std::string>> none;
        C* c[4]; std::map<long, long> m[4];
        for (int k = 0; k < 4; ++k) c[k] = new C(std::less<long>(), std_allocator<P, origin_leaf>(k < 2 ? LA : LB));
        for (auto& t : script)
        {
            if (t.size() < 3 || t[0] != "map") continue;
            const std::string& op = t[1]; int i = std::atoi(t[2].c_str()) & 3; int j = t.size() > 3 ? std::atoi(t[3].c_str()) & 3 : 0; long v = t.size() > 4 ? std::atol(t[4].c_str()) : (t.size() > 3 ? std::atol(t[3].c_str()) : 0);
            long e0 = g_errors;
            if (op == "ins") { (*c[i])[v] = v + 1; m[i][v] = v + 1; }
            else if (op == "erase") { if (!c[i]->empty()) c[i]->erase(c[i]->begin()); if (!m[i].empty()) m[i].erase(m[i].begin()); }
            else if (op == "clear") { c[i]->clear(); m[i].clear(); }
            else if (op == "copy" && i != j) { *c[j] = *c[i]; m[j] = m[i]; }
            else if (op == "move" && i != j) { *c[j] = std::move(*c[i]); m[j] = std::move(m[i]); c[i]->clear(); m[i].clear(); }
            else if (op == "swap" && i != j) { using std::swap; swap(*c[i], *c[j]); swap(m[i], m[j]); }
            else if (op == "cc" && i != j) { delete c[j]; c[j] = new C(*c[i]); m[j] = m[i]; }
            else if (op == "mc" && i != j) { delete c[j]; c[j] = new C(std::move(*c[i])); m[j] = std::move(m[i]); c[i]->clear(); m[i].clear(); }
            else continue;
            auto eqm = [&](int k) { return std::equal(c[k]->begin(), c[k]->end(), m[k].begin(), m[k].end(), [](const P& a, const std::pair<const long, long>& b) { return a.first == b.first && a.second == b.second; }); };
            auto which = [&](int k) { return &c[k]->get_allocator().get_allocator() == &LA ? 'A' : 'B'; };
            std::printf("map %s %d %d = %s errors=%ld | %c %c %c %c | %zu %zu %zu %zu%s%s\n", op.c_str(), i, j, (eqm(i) && eqm(j)) ? "same" : "DIFFERENT", g_errors - e0, which(0), which(1), which(2), which(3), c[0]->size(), c[1]->size(), c[2]->size(), c[3]->size(),
                        g_errors - e0 ? " :: " : "", g_errors - e0 ? g_err.c_str() : "");
            if (g_errors - e0) g_err.clear();
        }
        for (int k = 0; k < 4; ++k) delete c[k];
    }
    // smart pointers: the block goes back to the allocator that provided it
    {
        long e0 = g_errors;
        { auto p = allocate_shared<long>(LA, 5); auto q = allocate_shared<long>(LB, 6); std::swap(p, q); auto r = p; p.reset(); }
        { auto p = allocate_unique<long>(LA, 5); auto q = allocate_unique<long>(LB, 6); std::swap(p, q); p = std::move(q); }
        // arrays: the deleter carries the allocator reference and the size through moves and swaps
        { auto p = allocate_unique<long[]>(LA, 5); auto q = allocate_unique<long[]>(LB, 9); p = std::move(q); }
        { auto p = allocate_unique<long[]>(LA, 3); auto q = allocate_unique<long[]>(LB, 4); std::swap(p, q); auto r = std::move(p); q = std::move(r); }
        // a constructor that throws (the type has a non-throwing default constructor): the node goes back where it came from
        struct Picky { long a[3]; Picky() noexcept {} explicit Picky(int) { throw 7; } };
        { try { auto p = allocate_unique<Picky>(LA, 1); } catch (int) {} try { auto p = allocate_shared<Picky>(LB, 1); } catch (int) {}
          try { auto p = allocate_unique<Picky>(any_allocator{}, LB, 1); } catch (int) {} }
        std::printf("smart = done errors=%ld%s%s\n", g_errors - e0, g_errors - e0 ? " :: " : "", g_errors - e0 ? g_err.c_str() : "");
    }
    std::printf("end live=%zu errors=%ld allocs=%ld deallocs=%ld\n", g_live.size(), g_errors, g_allocs, g_deallocs);
    return 0;
}

int main(int argc, char** argv)
{
    install_quiet_handlers();
    std::string mode = argc > 1 ? argv[1] : "prog";
    if (mode == "probe") return run_probe();
    if (mode == "eq") return run_eq();
    return run_prog();
}
