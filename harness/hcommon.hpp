// small helpers shared by the harnesses
#ifndef VERIF_HCOMMON_HPP
#define VERIF_HCOMMON_HPP
#include <cstdio>
#include <string>
#include <sstream>
#include <iostream>
#include <vector>
#include <exception>
#include <new>
#include "error.hpp"
#include "debugging.hpp"
#include "upstream.hpp"

namespace verif
{
    struct handler_counts { long oom = 0, bad_size = 0, leak = 0, invalid = 0, overflow = 0; long leak_amount = 0; std::vector<long> leak_amounts; std::vector<std::string> leak_names; };
    inline handler_counts& hc() { static handler_counts h; return h; }
    inline std::string& last_handler_info() { static std::string s; return s; }

    inline void h_oom(const foonathan::memory::allocator_info& info, std::size_t amount) noexcept { ++hc().oom; }
    inline void h_bad(const foonathan::memory::allocator_info& info, std::size_t passed, std::size_t supported) noexcept { ++hc().bad_size; }
    inline void h_leak(const foonathan::memory::allocator_info& info, std::ptrdiff_t amount) noexcept { ++hc().leak; hc().leak_amount += amount; hc().leak_amounts.push_back(long(amount)); hc().leak_names.push_back(info.name); }

    inline void install_quiet_handlers()
    {
        foonathan::memory::out_of_memory::set_handler(h_oom);
        foonathan::memory::bad_allocation_size::set_handler(h_bad);
        foonathan::memory::set_leak_handler(h_leak);
    }

    inline std::string leak_list()
    {
        std::string s = "[";
        for (std::size_t i = 0; i < hc().leak_amounts.size(); ++i) { if (i) s += ","; s += std::to_string(hc().leak_amounts[i]); }
        return s + "]";
    }

    // classify the in-flight exception into the small enum the models use
    inline const char* classify_current()
    {
        try { throw; }
        catch (foonathan::memory::out_of_fixed_memory&) { return "oofm"; }
        catch (foonathan::memory::out_of_memory&) { return "oom"; }
        catch (foonathan::memory::bad_node_size&) { return "bad_node"; }
        catch (foonathan::memory::bad_array_size&) { return "bad_array"; }
        catch (foonathan::memory::bad_alignment&) { return "bad_align"; }
        catch (foonathan::memory::bad_allocation_size&) { return "bad_size"; }
        catch (std::bad_alloc&) { return "bad_alloc"; }
        catch (std::exception&) { return "other_std"; }
        catch (...) { return "other"; }
    }
} // namespace verif
#endif
