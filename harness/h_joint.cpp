// Joint allocations (C11) and exception safety of the joint helpers (C20).
// one line per case:
//   j <form> <cap> <nc> <na> <nb> <throw_at> <post> [raw: (size al)*]
//     form: size|value|ilist|range|copy|move ; cap: additional size ; nc/na/nb: element counts of the three member arrays
//     throw_at: index (0-based, counted over Elem constructions of the case) of the construction that throws, -1 none
//     post: none|reset|clone|move|swap|assignnull
#include "hcommon.hpp"
#include "joint_allocator.hpp"
#include "std_allocator.hpp"
#include <memory>
using namespace foonathan::memory;
using namespace verif;

struct boom { int at; };
struct Elem
{
    static long constructed, destroyed, throw_at, seq; static std::vector<long> live_ids, dtor_ids; static long double_destroy;
    static std::size_t blk_lo, blk_hi; static long outside;   // the object's block while a case runs: elements built in upstream memory must lie inside it
    long id; long pad_[2] = {0, 0};   // sizeof(Elem) = 24 > alignof(Elem) = 8: a bump by the alignment instead of the size shows
    void where() { auto& U = verif::up(); if (U.inside(this)) { std::size_t o = U.off(this); bool ok = false; for (auto& b : U.blocks) if (b.live && b.off <= o && o + sizeof(Elem) <= b.off + b.size) { ok = true; break; } if (!ok) ++outside; } }
    static std::string ev;   // the events of the case in order: A/F node obtained / given back, C<id> D<id> element built / destroyed, T throw
    static void note(char k, long i) { char b[24]; if (i) std::snprintf(b, sizeof b, "%s%c%ld", ev.empty() ? "" : ",", k, i); else std::snprintf(b, sizeof b, "%s%c", ev.empty() ? "" : ",", k); ev += b; }
    static void maybe() { if (seq++ == throw_at) { note('T', 0); throw boom{int(seq - 1)}; } }
    Elem() { maybe(); where(); id = ++constructed; live_ids.push_back(id); note('C', id); }
    Elem(const Elem&) { maybe(); where(); id = ++constructed; live_ids.push_back(id); note('C', id); }
    Elem(Elem&&) { maybe(); where(); id = ++constructed; live_ids.push_back(id); note('C', id); }
    ~Elem()
    {
        ++destroyed; dtor_ids.push_back(id); note('D', id);
        auto it = std::find(live_ids.begin(), live_ids.end(), id);
        if (it == live_ids.end()) ++double_destroy; else live_ids.erase(it);
    }
    static void reset_counters(long t) { constructed = destroyed = seq = double_destroy = 0; outside = 0; throw_at = t; live_ids.clear(); dtor_ids.clear(); ev.clear(); }
};
long Elem::constructed, Elem::destroyed, Elem::throw_at = -1, Elem::seq, Elem::double_destroy, Elem::outside; std::size_t Elem::blk_lo, Elem::blk_hi; std::vector<long> Elem::live_ids, Elem::dtor_ids; std::string Elem::ev;
struct alignas(16) Blob16 { char c[16]; };

struct cfg_t { std::size_t nc, na, nb; std::vector<std::pair<std::size_t, std::size_t>> raw; std::string* log; long retry_n = -1, retry_k = -1; };
static cfg_t* g_cfg = nullptr;
static Elem* g_src_elems = nullptr; static std::string g_retry_form;   // source range for range/ilist forms (constructed outside the counted window)

struct f_size {}; struct f_value {}; struct f_ilist {}; struct f_range {};

template <class F> struct JT;
template <class F, class J> static void body(J& self);

#define COMMON_MEMBERS joint_array<char> c; joint_array<Elem> a; joint_array<Blob16> b;
template <> struct JT<f_size> : joint_type<JT<f_size>>
{
    COMMON_MEMBERS
    JT(joint j) : joint_type(j), c(g_cfg->nc, *this), a(g_cfg->na, *this), b(g_cfg->nb, *this) { body<f_size>(*this); }
    JT(joint j, const JT& o) : joint_type(j), c(o.c, *this), a(o.a, *this), b(o.b, *this) {}
    JT(joint j, JT&& o) : joint_type(j), c(std::move(o.c), *this), a(std::move(o.a), *this), b(std::move(o.b), *this) {}
};
template <> struct JT<f_value> : joint_type<JT<f_value>>
{
    COMMON_MEMBERS
    JT(joint j) : joint_type(j), c(g_cfg->nc, 'x', *this), a(g_cfg->na, g_src_elems[0], *this), b(g_cfg->nb, Blob16{}, *this) { body<f_value>(*this); }
    JT(joint j, const JT& o) : joint_type(j), c(o.c, *this), a(o.a, *this), b(o.b, *this) {}
    JT(joint j, JT&& o) : joint_type(j), c(std::move(o.c), *this), a(std::move(o.a), *this), b(std::move(o.b), *this) {}
};
template <> struct JT<f_range> : joint_type<JT<f_range>>
{
    COMMON_MEMBERS
    JT(joint j) : joint_type(j), c(g_cfg->nc, *this), a(g_src_elems, g_src_elems + g_cfg->na, *this), b(g_cfg->nb, *this) { body<f_range>(*this); }
    JT(joint j, const JT& o) : joint_type(j), c(o.c, *this), a(o.a, *this), b(o.b, *this) {}
    JT(joint j, JT&& o) : joint_type(j), c(std::move(o.c), *this), a(std::move(o.a), *this), b(std::move(o.b), *this) {}
};
template <> struct JT<f_ilist> : joint_type<JT<f_ilist>>
{
    COMMON_MEMBERS   // na is forced to 3 by the driver for this form
    JT(joint j) : joint_type(j), c(g_cfg->nc, *this), a({g_src_elems[0], g_src_elems[1], g_src_elems[2]}, *this), b(g_cfg->nb, *this) { body<f_ilist>(*this); }
    JT(joint j, const JT& o) : joint_type(j), c(o.c, *this), a(o.a, *this), b(o.b, *this) {}
    JT(joint j, JT&& o) : joint_type(j), c(std::move(o.c), *this), a(std::move(o.a), *this), b(std::move(o.b), *this) {}
};

template <class F, class J> static void body(J& self)
{
    auto& U = up(); char buf[128];
    auto base = reinterpret_cast<char*>(&self);
    std::snprintf(buf, sizeof buf, " c@%ld a@%ld b@%ld", long(reinterpret_cast<char*>(self.c.data()) - base), long(reinterpret_cast<char*>(self.a.data()) - base), long(reinterpret_cast<char*>(self.b.data()) - base));
    *g_cfg->log += buf;
    joint_allocator alloc(self);
    for (auto& r : g_cfg->raw)
    {
        try { auto p = static_cast<char*>(alloc.allocate_node(r.first, r.second)); std::snprintf(buf, sizeof buf, " n(%zu,%zu)@%ld", r.first, r.second, long(p - base)); std::memset(p, 0x33, r.first); }
        catch (out_of_fixed_memory&) { std::snprintf(buf, sizeof buf, " n(%zu,%zu)@throw", r.first, r.second); }
        *g_cfg->log += buf;
    }
    std::snprintf(buf, sizeof buf, " left=%zu", detail::get_stack(self).capacity_left());
    *g_cfg->log += buf;
    if (g_cfg->retry_n >= 0)
    {   // a joint_array whose k-th element throws, built (and caught) inside the object's own constructor:
        // its joint memory must be given back, so that the same request succeeds afterwards
        auto& st = detail::get_stack(self);
        std::size_t before = st.capacity_left(); long n = g_cfg->retry_n;
        long saved_seq = Elem::seq, saved_at = Elem::throw_at;
        Elem::seq = 0; Elem::throw_at = g_cfg->retry_k;
        const char* r1 = "ok";
        if (g_retry_form == "copy" || g_retry_form == "move")
        {   // the failing array is a copy of / is moved from another array of the same object (built first, without a failure)
            Elem::throw_at = -1;
            joint_array<Elem> srca(std::size_t(n), self);
            before = st.capacity_left(); Elem::seq = 0; Elem::throw_at = g_cfg->retry_k;
            try { if (g_retry_form == "copy") { joint_array<Elem> tmp(srca, self); } else { joint_array<Elem> tmp(std::move(srca), self); } }
            catch (boom&) { r1 = "boom"; } catch (out_of_fixed_memory&) { r1 = "oofm"; }
            std::size_t after = st.capacity_left();
            Elem::throw_at = -1;
            const char* r2 = "ok";
            try { joint_array<Elem> again(std::size_t(n), self); } catch (boom&) { r2 = "boom"; } catch (out_of_fixed_memory&) { r2 = "oofm"; }
            Elem::seq = saved_seq; Elem::throw_at = saved_at;
            std::snprintf(buf, sizeof buf, " retry=%s before=%zu after=%zu second=%s", r1, before, after, r2);
            *g_cfg->log += buf;
            return;
        }
        try
        {
            if (std::is_same<F, f_size>::value) { joint_array<Elem> tmp(std::size_t(n), self); }
            else if (std::is_same<F, f_value>::value) { joint_array<Elem> tmp(std::size_t(n), g_src_elems[0], self); }
            else if (std::is_same<F, f_range>::value) { joint_array<Elem> tmp(g_src_elems, g_src_elems + n, self); }
            else { joint_array<Elem> tmp({g_src_elems[0], g_src_elems[1], g_src_elems[2]}, self); }
        }
        catch (boom&) { r1 = "boom"; } catch (out_of_fixed_memory&) { r1 = "oofm"; }
        std::size_t after = st.capacity_left();
        Elem::throw_at = -1;
        const char* r2 = "ok";
        try { joint_array<Elem> again(std::size_t(n), self); } catch (boom&) { r2 = "boom"; } catch (out_of_fixed_memory&) { r2 = "oofm"; }
        Elem::seq = saved_seq; Elem::throw_at = saved_at;
        std::snprintf(buf, sizeof buf, " retry=%s before=%zu after=%zu second=%s", r1, before, after, r2);
        *g_cfg->log += buf;
    }
    (void)U;
}

template <class F>
static void run_case(std::size_t cap, long throw_at, const std::string& post, std::string& log)
{
    using T = JT<F>; auto& U = up(); char buf[160];
    std::snprintf(buf, sizeof buf, " sT=%zu aT=%zu eS=%zu eA=%zu", sizeof(T), alignof(T), sizeof(Elem), alignof(Elem)); log += buf;
    Elem::reset_counters(throw_at);
    up_alloc leaf;
    const char* ex = nullptr;
    U.ev_hook = [](char k) { Elem::note(k, 0); };
    {
        joint_ptr<T, up_alloc> p(leaf);
        try { p = allocate_joint<T>(leaf, joint_size(cap)); }
        catch (boom& b) { ex = "boom"; }
        catch (...) { ex = classify_current(); }
        log += " |" + U.take() + " |";
        if (ex) { log += std::string(" ctor=throw:") + ex; }
        else
        {
            log += " ctor=ok";
            if (post == "clone" || post == "move")
            {
                const char* ex2 = nullptr;
                try
                {
                    joint_ptr<T, up_alloc> q = post == "clone" ? clone_joint(leaf, *p) : joint_ptr<T, up_alloc>(leaf, joint_size(detail::get_stack(*p).capacity_used(detail::get_memory(*p))), std::move(*p));
                    auto base = reinterpret_cast<char*>(q.get());
                    std::snprintf(buf, sizeof buf, " clone: c@%ld a@%ld b@%ld shared=%d", long(reinterpret_cast<char*>(q->c.data()) - base), long(reinterpret_cast<char*>(q->a.data()) - base), long(reinterpret_cast<char*>(q->b.data()) - base),
                                  int(q->a.data() == p->a.data() && q->a.size() > 0));
                    log += buf; log += " |" + U.take() + " |";
                }
                catch (boom&) { ex2 = "boom"; } catch (...) { ex2 = classify_current(); }
                if (ex2) { log += std::string(" clone=throw:") + ex2 + " |" + U.take() + " |"; }
            }
            else if (post == "reset") { p.reset(); log += " reset |" + U.take() + " |"; }
            else if (post == "assignnull") { p = nullptr; log += " reset |" + U.take() + " |"; }
            else if (post == "swap") { joint_ptr<T, up_alloc> q(leaf); swap(p, q); log += " swapped |" + U.take() + " |"; }
            else if (post == "moveassign2" || post == "swap2" || post == "movector2")
            {   // a second allocator object: the block must go back to the allocator object it came from
                up_alloc leaf2; leaf2.tag = 1;
                {
                    joint_ptr<T, up_alloc> q(leaf2);
                    if (post == "moveassign2") q = std::move(p);
                    else if (post == "swap2") swap(p, q);
                    else { joint_ptr<T, up_alloc> r(std::move(p)); q = std::move(r); }
                    bool ok = q.get() != nullptr && &q.get_allocator() == &leaf;
                    log += ok ? " owner=first" : " owner=WRONG";
                }
                log += " moved2 |" + U.take() + " |";
            }
        }
    }
    U.ev_hook = nullptr;
    log += " end |" + U.take() + " |";
    log += " ev=" + (Elem::ev.empty() ? std::string("-") : Elem::ev);
    std::snprintf(buf, sizeof buf, " constructed=%ld destroyed=%ld double=%ld live=%zu outside=%ld", Elem::constructed, Elem::destroyed, Elem::double_destroy, Elem::live_ids.size(), Elem::outside);
    log += buf;
    // the allocator must still be usable
    try { void* q = leaf.allocate_node(8, 8); leaf.deallocate_node(q, 8, 8); U.take(); log += " usable=1"; } catch (...) { log += " usable=0"; }
}

// a joint type whose member is a standard container on joint_allocator: whatever the container does -- growth, copy and move
// assignment from the container of another joint object, swap is not allowed -- its elements stay in the object's own block
#include <vector>
struct JV : joint_type<JV>
{
    std::vector<long, std_allocator<long, joint_allocator>> v;
    JV(joint j, std::size_t n) : joint_type(j), v(joint_allocator(*this)) { v.reserve(n); for (std::size_t i = 0; i < n; ++i) v.push_back(long(i)); }
};
static void run_vec(std::size_t cap, std::size_t na, std::size_t nb, const std::string& how, std::string& log)
{
    up_alloc leaf; auto& U = up(); char buf[200];
    auto a = allocate_joint<JV>(leaf, joint_size(cap), na); auto b = allocate_joint<JV>(leaf, joint_size(cap), nb);
    const char* ex = nullptr;
    try { if (how == "move") a->v = std::move(b->v); else if (how == "copy") a->v = b->v; else a->v.assign(b->v.begin(), b->v.end()); }
    catch (...) { ex = classify_current(); }
    auto inside = [&](JV* o, const std::vector<long, std_allocator<long, joint_allocator>>& v) {
        auto lo = reinterpret_cast<const char*>(o) + sizeof(JV), hi = lo + cap; auto p = reinterpret_cast<const char*>(v.data());
        return v.capacity() == 0 || (p >= lo && p + v.capacity() * sizeof(long) <= hi); };
    bool same = !ex && a->v.size() == nb; if (same) for (std::size_t i = 0; i < nb; ++i) if (a->v[i] != long(i)) same = false;
    std::snprintf(buf, sizeof buf, " vec %s a_inside=%d b_inside=%d content=%d", ex ? ex : "ok", int(inside(a.get(), a->v)), int(inside(b.get(), b->v)), int(same || ex != nullptr));
    log += buf; b.reset();
    // a is still usable after b is gone
    long sum = 0; for (auto x : a->v) sum += x; std::snprintf(buf, sizeof buf, " after_b_gone=%ld", sum); log += buf;
    a.reset(); log += " |" + U.take() + " |";
}

int main()
{
    install_quiet_handlers();
    up().init();
    // sources for value/range/ilist forms, built before any counted window
    Elem::reset_counters(-1);
    static std::vector<Elem> src(64);
    g_src_elems = src.data();
    std::string line; long caseno = 0;
    while (std::getline(std::cin, line))
    {
        std::istringstream is(line); std::string k, form, post; std::size_t cap, nc, na, nb; long throw_at;
        is >> k >> form >> cap >> nc >> na >> nb >> throw_at >> post;
        if (k == "v")
        {   // v <move|copy|assign> <cap> - <na> <nb>
            std::string log; run_vec(cap, na, nb, form, log); std::printf("%s =%s\n", line.c_str(), log.c_str()); std::fflush(stdout); continue;
        }
        if (k != "j" && k != "r") continue;
        cfg_t cfg{nc, na, nb, {}, nullptr}; std::size_t s, a;
        if (k == "r") { cfg.retry_n = long(na); cfg.retry_k = throw_at; cfg.na = 0; throw_at = -1; }   // r <form> <cap> <nc> <n> <nb> <k> none
        while (is >> s >> a) cfg.raw.push_back({s, a});
        std::string log; cfg.log = &log; g_cfg = &cfg;
        up().bump = (up().bump + 4095) & ~std::size_t(4095);
        up().skew = (++caseno % 2) ? 8 : 0;
        g_retry_form = (k == "r" && (form == "copy" || form == "move")) ? form : "";
        if (form == "size" || !g_retry_form.empty()) run_case<f_size>(cap, throw_at, post, log);
        else if (form == "value") run_case<f_value>(cap, throw_at, post, log);
        else if (form == "range") run_case<f_range>(cap, throw_at, post, log);
        else run_case<f_ilist>(cap, throw_at, post, log);
        std::printf("%s =%s\n", line.c_str(), log.c_str());
        std::fflush(stdout);
    }
    std::printf("end live_blocks=%zu errors=%ld\n", up().live_count(), up().errors);
}
