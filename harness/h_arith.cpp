// Differential harness for the arithmetic kernel: reads "<fn> <hex args...>" lines, evaluates the real
// function compiled from the working tree, prints "<fn> <args...> = <hex result>".
#include <cstdio>
#include <cstring>
#include <cstdint>
#include <string>
#include <vector>
#include <type_traits>
#include <iostream>
#include <sstream>


#include "detail/align.hpp"
#include "detail/ilog2.hpp"
#include "detail/free_list.hpp"
#include "detail/small_free_list.hpp"
#include "detail/free_list_array.hpp"
#include "detail/memory_stack.hpp"
#include "memory_arena.hpp"



using namespace foonathan::memory;
using namespace foonathan::memory::detail;
typedef unsigned long long u64;

// mode 0: the array as constructed; 1: after move construction; 2: after move assignment onto another array
template <class FL, class AP>
static u64 bucket(u64 max_node, u64 s, int mode = 0)
{
    using arr_t = free_list_array<FL, AP>;
    static u64 cur_max = 0;
    static arr_t* arr[3] = {nullptr, nullptr, nullptr};
    auto fresh = [&](u64 mx) {
        // kept alive: the lists live in it (log2 buckets: at most 64 lists whatever the maximum)
        auto* buf = new std::vector<char>(sizeof(FL) * ((std::is_same<AP, log2_access_policy>::value ? 0 : mx) + 70) + 64);
        auto* st = new fixed_memory_stack(buf->data());
        return new arr_t(*st, buf->data() + buf->size(), mx);
    };
    if (!arr[0] || cur_max != max_node)
    {
        arr[0] = fresh(max_node);
        arr[1] = new arr_t(std::move(*fresh(max_node)));
        arr[2] = fresh(8); *arr[2] = std::move(*fresh(max_node));
        cur_max = max_node;
    }
    if (s == ~u64(0)) return arr[mode]->max_node_size();      // the maximum the array reports (it travels with a move)
    return arr[mode]->get(s).node_size();
}

// list arrays with static storage duration, constructed during the static initialisation of this translation unit (what a
// namespace-scope memory_pool_collection does): bucket selection must not depend on when the object was built
template <class FL, class AP>
struct static_array
{
    alignas(16) char buf[sizeof(FL) * 140 + 64];
    fixed_memory_stack st;
    free_list_array<FL, AP> arr;
    static_array() : st(buf), arr(st, buf + sizeof buf, 64) {}
};
static static_array<free_memory_list, identity_access_policy> g_s00;
static static_array<free_memory_list, log2_access_policy> g_s01;
static static_array<ordered_free_memory_list, identity_access_policy> g_s10;
static static_array<ordered_free_memory_list, log2_access_policy> g_s11;
static static_array<small_free_memory_list, identity_access_policy> g_s20;
static static_array<small_free_memory_list, log2_access_policy> g_s21;
static u64 bucket_static(u64 lt, u64 pol, u64 s)
{
    if (pol == 0) return lt == 0 ? g_s00.arr.get(s).node_size() : lt == 1 ? g_s10.arr.get(s).node_size() : g_s20.arr.get(s).node_size();
    return lt == 0 ? g_s01.arr.get(s).node_size() : lt == 1 ? g_s11.arr.get(s).node_size() : g_s21.arr.get(s).node_size();
}

int main(int argc, char** argv)
{
    std::ios::sync_with_stdio(false);
    std::string line;
    while (std::getline(std::cin, line))
    {
        std::istringstream is(line);
        std::string fn; is >> fn;
        if (fn.empty() || fn[0] == '#') continue;
        std::vector<u64> a; std::string t;
        while (is >> t) a.push_back(std::strtoull(t.c_str(), nullptr, 16));
        u64 r = 0;
        if (fn == "is_valid_alignment") r = is_valid_alignment(a[0]);
        else if (fn == "round_up_to_multiple_of_alignment") r = round_up_to_multiple_of_alignment(a[0], a[1]);
        else if (fn == "align_offset") r = align_offset(std::uintptr_t(a[0]), a[1]);
        else if (fn == "is_aligned") r = is_aligned(reinterpret_cast<void*>(a[0]), a[1]);
        else if (fn == "alignment_for") r = alignment_for(a[0]);
        else if (fn == "is_power_of_two") r = is_power_of_two<unsigned long>(a[0]);
        else if (fn == "ilog2_base") r = ilog2_base(a[0]);
        else if (fn == "ilog2") r = ilog2(a[0]);
        else if (fn == "ilog2_ceil") r = ilog2_ceil(a[0]);
        else if (fn == "log2_index_from_size") r = log2_access_policy::index_from_size(a[0]);
        else if (fn == "log2_size_from_index") r = log2_access_policy::size_from_index(a[0]);
        else if (fn == "identity_index_from_size") r = identity_access_policy::index_from_size(a[0]);
        else if (fn == "identity_size_from_index") r = identity_access_policy::size_from_index(a[0]);
        else if (fn == "free_list_min_block_size") r = free_memory_list::min_block_size(a[0], a[1]);
        else if (fn == "ordered_list_min_block_size") r = ordered_free_memory_list::min_block_size(a[0], a[1]);
        else if (fn == "small_list_min_block_size") r = small_free_memory_list::min_block_size(a[0], a[1]);
        else if (fn == "small_chunk_count") r = small_free_memory_list::chunk_count(a[0]);
        else if (fn == "free_list_usable_size") { free_memory_list l(a[0]); r = l.usable_size(a[1]); a[0] = l.node_size(); }
        else if (fn == "ordered_list_usable_size") { ordered_free_memory_list l(a[0]); r = l.usable_size(a[1]); a[0] = l.node_size(); }
        else if (fn == "small_list_usable_size") { small_free_memory_list l(a[0]); r = l.usable_size(a[1]); }
        else if (fn == "implementation_offset") r = memory_block_stack::implementation_offset();
        else if (fn == "arena_min_block_size") r = memory_arena<growing_block_allocator<>>::min_block_size(a[0]);
        else if (fn == "grow_block_size") {
            if (a[0] == 2 && a[1] == 1) r = growing_block_allocator<>::grow_block_size(a[2]);
            else if (a[0] == 3 && a[1] == 2) r = growing_block_allocator<default_allocator, 3, 2>::grow_block_size(a[2]);
            else if (a[0] == 1 && a[1] == 1) r = growing_block_allocator<default_allocator, 1, 1>::grow_block_size(a[2]);
            else continue;
        }
        else if (fn == "const") {  // constants: name by index
            const char* nm = "?";
            switch (a[0]) {
            case 0: r = max_alignment; break;
            case 1: r = chunk_memory_offset; break;
            case 2: r = chunk_max_nodes; break;
            case 3: r = free_memory_list::min_element_size; break;
            case 4: r = ordered_free_memory_list::min_element_size; break;
            default: continue;
            }
        }
        else if (fn == "bucket" || fn == "bucket_moved" || fn == "bucket_assigned") {
            int mode = fn == "bucket" ? 0 : fn == "bucket_moved" ? 1 : 2;
            // a[0]: list type 0 free 1 ordered 2 small; a[1]: policy 0 identity 1 log2; a[2] max node size; a[3] size
            if (a[1] == 0) r = a[0] == 0 ? bucket<free_memory_list, identity_access_policy>(a[2], a[3], mode)
                             : a[0] == 1 ? bucket<ordered_free_memory_list, identity_access_policy>(a[2], a[3], mode)
                                         : bucket<small_free_memory_list, identity_access_policy>(a[2], a[3], mode);
            else r = a[0] == 0 ? bucket<free_memory_list, log2_access_policy>(a[2], a[3], mode)
                     : a[0] == 1 ? bucket<ordered_free_memory_list, log2_access_policy>(a[2], a[3], mode)
                                 : bucket<small_free_memory_list, log2_access_policy>(a[2], a[3], mode);
        }
        else if (fn == "bucket_max") {
            // a[0] list type, a[1] policy, a[2] max node size, a[3] mode: the maximum node size the array reports
            int mode = int(a[3]);
            if (a[1] == 0) r = a[0] == 0 ? bucket<free_memory_list, identity_access_policy>(a[2], ~u64(0), mode)
                             : a[0] == 1 ? bucket<ordered_free_memory_list, identity_access_policy>(a[2], ~u64(0), mode)
                                         : bucket<small_free_memory_list, identity_access_policy>(a[2], ~u64(0), mode);
            else r = a[0] == 0 ? bucket<free_memory_list, log2_access_policy>(a[2], ~u64(0), mode)
                     : a[0] == 1 ? bucket<ordered_free_memory_list, log2_access_policy>(a[2], ~u64(0), mode)
                                 : bucket<small_free_memory_list, log2_access_policy>(a[2], ~u64(0), mode);
        }
        else if (fn == "bucket_static") r = bucket_static(a[0], a[1], a[3]);      // a[2] is 64
        else { std::printf("? %s\n", fn.c_str()); continue; }
        std::printf("%s", fn.c_str());
        for (auto x : a) std::printf(" %llx", x);
        std::printf(" = %llx\n", r);
    }
}
