"""Shared check context: seed/tier, proof step, violation protocol, known findings, evidence."""
import json, os, random, sys, time, hashlib, traceback, re
from . import build, coqrun

VERIF = build.VERIF
KNOWN = os.path.join(VERIF, 'known_findings.txt')

TRUSTED_BASE = [
    'Coq 8.16.1 kernel (coqc, full .vo builds; vm_compute used for finite sweeps and examples; no native_compute)',
    'no axioms: every property theorem is "Closed under the global context" (parsed from Print Assumptions on this run)',
    'translator vlib/translate.py over clang 14 JSON AST (regenerates GenArith.v from the working tree; cross-checked by the differential run)',
    'extraction: ExtrOcamlBasic only, no Extract Constant; N/Z/positive/nat stay inductive; OCaml 4.13.1; ocaml/*.ml replay driver',
    'correspondence harness harness/*.cpp built with g++ from the working tree; hand-written models are tied to the code only on the explored inputs',
]


class Violation:
    def __init__(self, key, what, replay=None, found=True):
        self.key = key; self.what = what; self.replay = replay or {}; self.found = found


class Ctx:
    def __init__(self, pid, tier, seed):
        self.pid = pid; self.tier = tier; self.seed = seed
        self.rng = random.Random(seed * 1000003 + int(pid[1:]))
        self.t0 = time.time()
        self.violations = []
        self.known_hits = []
        self.cov = {}           # coverage dict (extended by the check)
        self.samples = []
        self.assumptions = []
        self.level = 'proof'
        self.proof = None
        self.tie_broken = []    # descriptions of broken proof/tie obligations
        self.notes = []

    # ---- known findings -----------------------------------------------------------------
    def known(self):
        out = {}
        if os.path.exists(KNOWN):
            for ln in open(KNOWN):
                m = re.match(r'finding:\s+property=(\S+)\s+key=(\S+)\s+::\s*(.*)', ln.strip())
                if m:
                    out[(m.group(1), m.group(2))] = m.group(3)
        return out

    def violation(self, key, what, replay=None, found=True):
        k = self.known()
        if (self.pid, key) in k:
            if key not in [x[0] for x in self.known_hits]:
                self.known_hits.append((key, k[(self.pid, key)]))
            return
        self.violations.append(Violation(key, what, replay, found))

    # ---- steps ---------------------------------------------------------------------------
    def regen(self):
        errs, targets = coqrun.regen()
        self.gen_errors = errs
        self.targets = targets
        for e in errs:
            self.tie_broken.append('translator: ' + e)
        return errs

    def prove(self, pid=None):
        pid = pid or self.pid
        r = coqrun.check_props(pid)
        self.proof = r
        if not r['ok']:
            self.tie_broken.append('proof: ' + str(r['error']))
        elif self.tier == 'thorough':
            # independent checker over the compiled files of this property and all they depend on
            k = coqrun.coqchk(pid)
            self.cov['coqchk'] = dict(ok=k['ok'], axioms=k['axioms'], wall_s=round(k['wall'], 1))
            if not k['ok']:
                self.tie_broken.append('coqchk: ' + (k['output'][-300:] if k['axioms'] is None else 'axioms %s flags %s' % (k['axioms'], k['flags'])))
        return r

    def replay_exe(self):
        return coqrun.build_replay()

    # ---- finish --------------------------------------------------------------------------
    def finish(self):
        wall = time.time() - self.t0
        pr = self.proof or dict(theorems=[], wanted=[], ok=False)
        obligations = len(pr.get('wanted', [])) + self.cov.get('generated_obligations', 0)
        discharged = (len([1 for _, b in pr.get('theorems', []) if b == 'closed']) if pr.get('ok') else 0) + self.cov.get('generated_discharged', 0)
        cov = dict(self.cov)
        cov.update(dict(
            obligations=max(obligations, 1), discharged=discharged,
            checker_cmd=("make -C /verif/coq Properties_%s.vo (coqc 8.16.1, rebuilt on this run) + Print Assumptions parsed per theorem + forbidden-vernacular scan" % self.pid) + ("; coqchk -o -silent on the property module and all its dependencies" if self.tier == "thorough" else ""),
            trusted_base=TRUSTED_BASE + self.assumptions,
            axioms_per_theorem={n: (b if b == 'closed' else list(b)) for n, b in pr.get('theorems', [])},
            proof_wall_s=round(pr.get('wall', 0), 1),
            samples=self.samples[:8] or ['(no samples recorded)'],
            known_findings_hit=[k for k, _ in self.known_hits],
            notes=self.notes,
        ))
        # a broken obligation with no concrete failing input is still a violation
        if self.tie_broken and not self.violations:
            self.violations.append(Violation('broken-obligation', '; '.join(self.tie_broken)[:600],
                                             dict(broken=self.tie_broken), found=False))
        ev = dict(property_id=self.pid, tier=self.tier, seed=self.seed, level=self.level, coverage=cov,
                  assumptions=['EnvOK: upstream memory is 16-aligned, non-null, non-wrapping, disjoint (checked by the harness at run time)',
                               'hand-written models correspond to the code only on the explored inputs/histories'] + self.assumptions,
                  wall_s=round(wall, 2), violations=len(self.violations))
        os.makedirs(os.path.join(VERIF, 'evidence'), exist_ok=True)
        with open(os.path.join(VERIF, 'evidence', self.pid + '.json'), 'w') as f:
            json.dump(ev, f, indent=1, default=str)
        for key, what in self.known_hits:
            print('KNOWN-FINDING: property=%s %s [%s]' % (self.pid, what, key))
        if not self.violations:
            print('OK property=%s tier=%s seed=%d obligations=%d discharged=%d wall=%.1fs' % (self.pid, self.tier, self.seed, obligations, discharged, wall))
            return 0
        os.makedirs(os.path.join(VERIF, 'replays'), exist_ok=True)
        for v in self.violations:
            body = dict(property=self.pid, key=v.key, what=v.what, seed=self.seed, tier=self.tier, replay=v.replay,
                        broken_obligations=self.tie_broken)
            h = hashlib.sha256(json.dumps(body, sort_keys=True, default=str).encode()).hexdigest()[:10]
            path = os.path.join(VERIF, 'replays', '%s-%s.json' % (self.pid, h))
            with open(path, 'w') as f:
                json.dump(body, f, indent=1, default=str)
            print('DETAIL property=%s %s' % (self.pid, v.what[:400]))
            print('VIOLATION property=%s replay=%s%s' % (self.pid, path, '' if v.found else ' no-failing-input-found'))
        return 1


def main(checks):
    import argparse
    ap = argparse.ArgumentParser()
    ap.add_argument('pid')
    ap.add_argument('--tier', default=os.environ.get('VERIF_TIER', 'quick'))
    ap.add_argument('--replay')
    a = ap.parse_args()
    seed = int(os.environ.get('VERIF_SEED', '1') or 1)
    if a.pid not in checks:
        print('unknown property ' + a.pid); return 2
    ctx = Ctx(a.pid, a.tier if a.tier in ('quick', 'thorough') else 'quick', seed)
    ctx.replay_path = a.replay
    try:
        checks[a.pid](ctx)
    except build.BuildError as e:
        # the tree no longer builds in a verification configuration: the tie cannot be established
        ctx.tie_broken.append('build: ' + str(e)[:1500])
    except Exception as e:
        ctx.tie_broken.append('internal error in check: ' + traceback.format_exc()[-1500:])
    return ctx.finish()
