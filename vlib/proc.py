"""run a harness with a time limit; a harness that does not finish is a result (hang), not an exception"""
import subprocess


class Result:
    def __init__(self, returncode, stdout, stderr, hang=False):
        self.returncode = returncode; self.stdout = stdout; self.stderr = stderr; self.hang = hang


def run(cmd, input=None, timeout=300):
    try:
        r = subprocess.run(cmd, input=input, stdout=subprocess.PIPE, stderr=subprocess.PIPE, text=True, timeout=timeout, errors='replace')
        return Result(r.returncode, r.stdout, r.stderr)
    except subprocess.TimeoutExpired as e:
        out = e.stdout or ''
        if isinstance(out, bytes):
            out = out.decode(errors='replace')
        err = e.stderr or ''
        if isinstance(err, bytes):
            err = err.decode(errors='replace')
        return Result(-999, out, err + '\n[time limit of %d s exceeded: the harness did not finish]' % timeout, hang=True)
