#!/usr/bin/env python3
"""clang JSON AST -> Gallina translator for the arithmetic kernel of foonathan/memory.

Restricted subset (straight-line integer code, ?:, if/return, locals, calls to other translated
functions, constexpr constants, sizeof/alignof resolved by a probe program).  Everything outside the
subset raises Refuse -- a refused function is reported by the check as a broken tie, it is never skipped.

All integers are modelled in N with explicit wrap-around at the C++ type's width.
Pointers are addresses (N, width 64); char-pointer arithmetic is address arithmetic.
"""
import json, os, re, subprocess, sys, hashlib

WIDTH = {'unsigned long': 64, 'std::size_t': 64, 'size_t': 64, 'std::uintptr_t': 64, 'uintptr_t': 64,
         'std::uint64_t': 64, 'uint64_t': 64, 'unsigned long long': 64, 'unsigned int': 32, 'unsigned': 32,
         'unsigned char': 8, 'unsigned short': 16, 'bool': 1, 'int': 32, 'long': 64, 'std::ptrdiff_t': 64,
         'long long': 64}
SIGNED = {'int', 'long', 'std::ptrdiff_t', 'long long'}


class Refuse(Exception):
    pass


def clean(q):
    return re.sub(r'\b(const|volatile)\b', '', q).replace('  ', ' ').strip()


def is_ptr(t):
    q = clean(t.get('desugaredQualType', t['qualType']))
    return q.endswith('*')


def width(t):
    q = clean(t['qualType'])
    d = clean(t.get('desugaredQualType', q))
    for k in (q, d):
        if k in WIDTH:
            return WIDTH[k]
    if q.endswith('*') or d.endswith('*'):
        return 64
    raise Refuse('type ' + q)


def is_signed(t):
    q = clean(t['qualType']); d = clean(t.get('desugaredQualType', q))
    return q in SIGNED or d in SIGNED


def load_docs(text):
    dec = json.JSONDecoder(); i = 0; docs = []
    n = len(text)
    while i < n:
        while i < n and text[i].isspace():
            i += 1
        if i >= n:
            break
        d, i = dec.raw_decode(text, i)
        docs.append(d)
    return docs


class Index:
    """qualified-name index of function definitions and constexpr variables"""

    def __init__(self, docs):
        self.ctx = {}      # decl id -> qualified path of a context (namespace/record)
        self.funcs = {}    # qualified name -> [decl]
        self.vars = {}     # qualified name -> decl
        self.byid = {}
        for d in docs:
            self._ctx(d, '')
        for d in docs:
            self._walk(d, '', False)

    def _ctx(self, n, path):
        k = n.get('kind'); nm = n.get('name', '')
        if k in ('NamespaceDecl', 'CXXRecordDecl', 'ClassTemplateSpecializationDecl'):
            p = path + '::' + nm if nm else path
            if 'id' in n:
                self.ctx[n['id']] = p
            for c in n.get('inner', []):
                self._ctx(c, p)
        elif k in ('ClassTemplateDecl', 'LinkageSpecDecl', 'FunctionTemplateDecl', 'TranslationUnitDecl'):
            for c in n.get('inner', []):
                self._ctx(c, path)

    def _walk(self, n, path, in_spec):
        k = n.get('kind'); nm = n.get('name', '')
        if 'id' in n:
            self.byid[n['id']] = n
        if k in ('FunctionDecl', 'CXXMethodDecl'):
            p = path
            if 'parentDeclContextId' in n and n['parentDeclContextId'] in self.ctx:
                p = self.ctx[n['parentDeclContextId']]
            if any(x.get('kind') == 'CompoundStmt' for x in n.get('inner', [])):
                self.funcs.setdefault(p + '::' + nm, []).append((n, in_spec))
            return
        if k == 'VarDecl':
            p = path
            if 'parentDeclContextId' in n and n['parentDeclContextId'] in self.ctx:
                p = self.ctx[n['parentDeclContextId']]
            if 'init' in n and n.get('inner'):
                self.vars.setdefault(p + '::' + nm, n)
            return
        if k in ('NamespaceDecl', 'CXXRecordDecl'):
            p = path + '::' + nm if nm else path
            for c in n.get('inner', []):
                self._walk(c, p, in_spec)
        elif k == 'ClassTemplateSpecializationDecl':
            p = path + '::' + nm
            for c in n.get('inner', []):
                self._walk(c, p, True)
        elif k in ('ClassTemplateDecl', 'LinkageSpecDecl', 'FunctionTemplateDecl', 'TranslationUnitDecl'):
            for c in n.get('inner', []):
                self._walk(c, path, in_spec)


RESERVED = {'N', 'Z', 'nat', 'bool', 'if', 'then', 'else', 'let', 'in', 'fun', 'end', 'match', 'with', 'Type', 'Prop', 'Set',
            'forall', 'exists', 'fix', 'cofix', 'return', 'as', 'at', 'using', 'where', 'for', 'true', 'false', 'list', 'option'}


def cname(s):
    s = re.sub(r'[^A-Za-z0-9_]', '_', s)
    if s in RESERVED:
        s = 't' + s
    return s


class Tr:
    def __init__(self, gen, fname):
        self.gen = gen
        self.fname = fname
        self.env = {}
        self.fields = []     # member fields used, become leading parameters

    # ---- expressions -------------------------------------------------------------------
    def expr(self, n):
        k = n['kind']
        if k in ('ParenExpr', 'ConstantExpr', 'ExprWithCleanups', 'SubstNonTypeTemplateParmExpr', 'MaterializeTemporaryExpr'):
            return self.expr(n['inner'][-1])
        if k in ('ImplicitCastExpr', 'CXXFunctionalCastExpr', 'CXXStaticCastExpr', 'CStyleCastExpr', 'CXXReinterpretCastExpr'):
            ck = n.get('castKind'); inner = n['inner'][-1]
            if ck in ('LValueToRValue', 'NoOp', 'FunctionToPointerDecay', 'BuiltinFnToFnPtr', 'BitCast',
                      'PointerToIntegral', 'IntegralToPointer', 'ConstructorConversion', 'ArrayToPointerDecay'):
                return self.expr(inner)
            if ck == 'IntegralCast':
                e = self.expr(inner); wt = width(n['type'])
                try:
                    wi = width(inner['type'])
                except Refuse:
                    wi = 64
                if wi == 1:
                    return '(N.b2n %s)' % e
                if inner['kind'] == 'IntegerLiteral':
                    return e
                if wt >= wi:
                    # widening of a signed value would sign-extend; only non-negative signed values occur
                    # (literals, sizeof-derived constants) -- enforced by refusing unary minus on signed types
                    return e
                return '(wrap%d %s)' % (wt, e)
            if ck == 'IntegralToBoolean':
                return '(negb (%s =? 0))' % self.expr(inner)
            if ck == 'PointerToBoolean':
                return '(negb (%s =? 0))' % self.expr(inner)
            raise Refuse('cast ' + str(ck))
        if k == 'IntegerLiteral':
            return n['value']
        if k == 'CXXBoolLiteralExpr':
            return 'true' if n['value'] else 'false'
        if k == 'CXXNullPtrLiteralExpr':
            return '0'
        if k == 'DeclRefExpr':
            rd = n['referencedDecl']; name = rd['name']
            if rd['kind'] in ('ParmVarDecl',) or (rd['kind'] == 'VarDecl' and name in self.env):
                return self.env.get(name, cname(name))
            if rd['kind'] == 'NonTypeTemplateParmDecl':
                name = cname(name)
                if name not in self.fields:
                    self.fields.append(name)
                return name
            if rd['kind'] == 'VarDecl':
                return self.gen.constant(rd)
            if rd['kind'] == 'EnumConstantDecl':
                raise Refuse('enum constant ' + name)
            raise Refuse('declref ' + rd['kind'] + ' ' + name)
        if k == 'UnaryOperator':
            op = n['opcode']; e = self.expr(n['inner'][0])
            if op == '!':
                return '(negb %s)' % e
            w = width(n['type'])
            if op == '~':
                return '(wnot%d %s)' % (w, e)
            if op == '-':
                if is_signed(n['type']):
                    raise Refuse('signed negation')
                return '(wneg%d %s)' % (w, e)
            if op == '+':
                return e
            raise Refuse('unop ' + op)
        if k == 'BinaryOperator':
            op = n['opcode']; a = self.expr(n['inner'][0]); b = self.expr(n['inner'][1])
            if op in ('<', '<=', '>', '>=', '==', '!='):
                if is_signed(n['inner'][0]['type']) and n['inner'][0]['kind'] != 'IntegerLiteral' and False:
                    raise Refuse('signed comparison')
                try:
                    w0 = width(n['inner'][0]['type'])
                except Refuse:
                    w0 = 64
                if w0 == 1:
                    if op == '==':
                        return '(Bool.eqb %s %s)' % (a, b)
                    if op == '!=':
                        return '(xorb %s %s)' % (a, b)
                    raise Refuse('bool ordering')
                if op == '!=':
                    return '(negb (%s =? %s))' % (a, b)
                if op == '==':
                    return '(%s =? %s)' % (a, b)
                if op == '<':
                    return '(%s <? %s)' % (a, b)
                if op == '<=':
                    return '(%s <=? %s)' % (a, b)
                if op == '>':
                    return '(%s <? %s)' % (b, a)
                if op == '>=':
                    return '(%s <=? %s)' % (b, a)
            if op == '&&':
                return '(%s && %s)' % (a, b)
            if op == '||':
                return '(%s || %s)' % (a, b)
            w = width(n['type'])
            if w == 1:
                if op == '&':
                    return '(%s && %s)' % (a, b)
                if op == '|':
                    return '(%s || %s)' % (a, b)
                raise Refuse('bool binop ' + op)
            if is_ptr(n['type']):
                # pointer arithmetic: only on char-like pointers (element size 1)
                pt = clean(n['type'].get('desugaredQualType', n['type']['qualType']))
                if not re.match(r'^(unsigned |signed )?char \*$', pt):
                    raise Refuse('pointer arithmetic on ' + pt)
            if op == '+':
                return '(wadd%d %s %s)' % (w, a, b)
            if op == '-':
                if is_ptr(n['inner'][0]['type']) and is_ptr(n['inner'][1]['type']):
                    return '(wsub64 %s %s)' % (a, b)
                return '(wsub%d %s %s)' % (w, a, b)
            if op == '*':
                return '(wmul%d %s %s)' % (w, a, b)
            if op == '/':
                if is_signed(n['type']):
                    pass  # operands are non-negative (see IntegralCast note)
                return '(%s / %s)' % (a, b)
            if op == '%':
                return '(%s mod %s)' % (a, b)
            if op == '&':
                return '(N.land %s %s)' % (a, b)
            if op == '|':
                return '(N.lor %s %s)' % (a, b)
            if op == '^':
                return '(N.lxor %s %s)' % (a, b)
            if op == '<<':
                return '(wshl%d %s %s)' % (w, a, b)
            if op == '>>':
                return '(N.shiftr %s %s)' % (a, b)
            raise Refuse('binop ' + op)
        if k == 'ConditionalOperator':
            c, a, b = [self.expr(x) for x in n['inner']]
            return '(if %s then %s else %s)' % (c, a, b)
        if k in ('CallExpr', 'CXXMemberCallExpr'):
            callee = n['inner'][0]
            while callee['kind'] in ('ImplicitCastExpr', 'ParenExpr'):
                callee = callee['inner'][0]
            args = [self.expr(x) for x in n['inner'][1:]]
            if callee['kind'] == 'DeclRefExpr':
                rd = callee['referencedDecl']; name = rd['name']
                if name == '__builtin_clzll':
                    return '(clz64 %s)' % args[0]
                target = self.gen.callee_name(rd, callee)
                return '(' + ' '.join([target] + args) + ')'
            if callee['kind'] == 'MemberExpr' and callee['inner'][0]['kind'] == 'CXXThisExpr':
                target, extra = self.gen.member_callee(callee, self)
                return '(' + ' '.join([target] + extra + args) + ')'
            if callee['kind'] == 'UnresolvedLookupExpr':
                # call to an overload set inside a template pattern: resolve by simple name + arity
                target = self.gen.unresolved_callee(callee, len(args))
                return '(' + ' '.join([target] + args) + ')'
            raise Refuse('call through ' + callee['kind'])
        if k == 'UnaryExprOrTypeTraitExpr':
            if n['name'] in ('sizeof', 'alignof'):
                if 'argType' in n:
                    t = n['argType'].get('desugaredQualType', n['argType']['qualType'])
                else:
                    t = n['inner'][0]['type'].get('desugaredQualType', n['inner'][0]['type']['qualType'])
                t = clean(t)
                return self.gen.probe(n['name'], t)
            raise Refuse('trait ' + n['name'])
        if k == 'MemberExpr':
            chain = []
            cur = n
            while cur['kind'] == 'MemberExpr':
                chain.append(cur['name']); cur = cur['inner'][0]
            while cur['kind'] in ('ImplicitCastExpr',):
                cur = cur['inner'][0]
            if cur['kind'] == 'CXXThisExpr':
                nm = cname('_'.join(reversed(chain)))
                if nm not in self.fields:
                    self.fields.append(nm)
                return nm
            raise Refuse('member of non-this')
        raise Refuse('expr kind ' + k)

    # ---- statements --------------------------------------------------------------------
    def stmts(self, lst):
        if not lst:
            raise Refuse('control falls off the end')
        n = lst[0]; k = n['kind']
        if k == 'NullStmt':
            return self.stmts(lst[1:])
        if k == 'ReturnStmt':
            return self.expr(n['inner'][0])
        if k == 'DeclStmt':
            out = ''
            for v in n['inner']:
                if v['kind'] == 'StaticAssertDecl':
                    continue
                if v['kind'] != 'VarDecl' or 'inner' not in v:
                    raise Refuse('declaration ' + v['kind'])
                e = self.expr(v['inner'][0])
                if v['name'] in self.env:
                    raise Refuse('shadowed local ' + v['name'])
                self.env[v['name']] = cname(v['name'])
                out += 'let %s := %s in\n  ' % (cname(v['name']), e)
            return out + self.stmts(lst[1:])
        if k == 'CompoundStmt':
            return self.stmts(n.get('inner', []) + lst[1:])
        if k == 'IfStmt':
            inner = n['inner']
            c = self.expr(inner[0])
            th = self.stmts([inner[1]] + lst[1:])
            el = self.stmts(([inner[2]] if len(inner) > 2 else []) + lst[1:])
            return '(if %s then %s else %s)' % (c, th, el)
        raise Refuse('statement kind ' + k)


class Gen:
    """drives translation of a list of targets, resolving callees, constants and probes"""

    def __init__(self, index, targets):
        self.index = index
        self.targets = targets          # list of dicts: q (qualified name), coq, [nparams], [pick]
        self.byq = {}
        for t in targets:
            self.byq.setdefault(t['q'], []).append(t)
        self.consts = {}                # coq name -> definition text
        self.const_order = []
        self.probes = {}                # coq name -> (kind, type)
        self.errors = []

    def probe(self, kind, t):
        nm = '%s_%s' % (kind, cname(t))
        self.probes[nm] = (kind, t)
        return nm

    def qual_of_decl(self, rd):
        full = self.index.byid.get(rd['id'])
        return full

    def constant(self, rd):
        name = rd['name']
        full = self.index.byid.get(rd['id'])
        if full is None:
            # search by name among vars
            cands = [q for q in self.index.vars if q.endswith('::' + name)]
            if len(cands) != 1:
                raise Refuse('constant %s not unique (%s)' % (name, cands))
            full = self.index.vars[cands[0]]; q = cands[0]
        else:
            q = None
            for qq, v in self.index.vars.items():
                if v is full or v.get('id') == full.get('id'):
                    q = qq
            if q is None:
                q = '::' + name
        # coq name: class-qualified for static members
        parts = [p for p in q.split('::') if p and p not in ('foonathan', 'memory', 'detail')]
        cn = cname('_'.join(parts))
        if cn not in self.consts:
            if not full.get('inner'):
                raise Refuse('constant %s has no initializer' % name)
            t = Tr(self, cn)
            e = t.expr(full['inner'][0])
            if t.fields:
                raise Refuse('constant depends on fields')
            self.consts[cn] = 'Definition %s : N := %s.' % (cn, e)
            self.const_order.append(cn)
        return cn

    def _coq_for(self, q, nparams=None):
        ts = self.byq.get(q)
        if not ts:
            raise Refuse('call to untranslated function ' + q)
        if len(ts) == 1:
            return ts[0]
        for t in ts:
            if nparams is not None and t.get('nparams') == nparams:
                return t
        raise Refuse('ambiguous callee ' + q)

    def callee_name(self, rd, callee):
        full = self.index.byid.get(rd['id'])
        name = rd['name']
        # find the qualified names that carry this simple name
        cands = [q for q in self.byq if q.endswith('::' + name)]
        if not cands:
            raise Refuse('call to untranslated function ' + name)
        # parameter types of the callee disambiguate overloads
        sig = rd.get('type', {}).get('qualType', '')
        best = None
        for q in cands:
            for t in self.byq[q]:
                if 'sig' in t:
                    if t['sig'] in sig:
                        best = t
                elif best is None:
                    best = t
        if best is None:
            raise Refuse('cannot resolve callee ' + name)
        return best['coq']

    def unresolved_callee(self, callee, nargs):
        name = callee.get('name')
        cands = [t for q in self.byq for t in self.byq[q] if q.endswith('::' + name)]
        if len(cands) == 1:
            return cands[0]['coq']
        raise Refuse('unresolved callee ' + str(name))

    def member_callee(self, callee, tr):
        name = callee['name']
        cls = tr.fname_class
        q = cls + '::' + name
        t = self._coq_for(q)
        extra = []
        for f in t.get('fields_out', []):
            if f not in tr.fields:
                tr.fields.append(f)
            extra.append(f)
        return t['coq'], extra

    def pick_decl(self, t):
        ds = self.index.funcs.get(t['q'])
        if not ds:
            raise Refuse('no definition found for ' + t['q'])
        cands = []
        for d, in_spec in ds:
            params = [p for p in d.get('inner', []) if p['kind'] == 'ParmVarDecl']
            sig = d.get('type', {}).get('qualType', '')
            if 'sig' in t and t['sig'] not in sig:
                continue
            if '<dependent type>' in sig:
                continue
            dep = False
            for p in params:
                try:
                    width(p['type'])
                except Refuse:
                    dep = True
            if dep:
                continue
            cands.append((d, in_spec))
        if not cands:
            raise Refuse('no translatable definition for %s (of %d)' % (t['q'], len(ds)))
        # prefer the primary (pattern / non-template) definition; all instantiations share it
        cands.sort(key=lambda x: x[1])
        return cands[0][0]

    def translate_all(self):
        out = []
        for t in self.targets:
            try:
                d = self.pick_decl(t)
                tr = Tr(self, t['coq'])
                tr.fname_class = t['q'].rsplit('::', 1)[0]
                params = [cname(p['name']) for p in d.get('inner', []) if p['kind'] == 'ParmVarDecl']
                body = [x for x in d['inner'] if x['kind'] == 'CompoundStmt'][0]
                txt = tr.stmts(body.get('inner', []))
                rq = d['type']['qualType']
                ret = 'bool' if rq.startswith('bool') else 'N'
                t['ret'] = ret
                t['fields_out'] = list(tr.fields)
                t['params_out'] = list(tr.fields) + params
                ps = ' '.join('(%s:N)' % p for p in t['params_out'])
                out.append(('fn', t, 'Definition %s %s : %s :=\n  %s.' % (t['coq'], ps, ret, txt)))
            except Refuse as r:
                self.errors.append('%s: %s' % (t['q'], r))
                out.append(('refused', t, '(* REFUSED %s: %s *)' % (t['q'], r)))
            except (KeyError, IndexError) as r:
                self.errors.append('%s: unexpected AST shape (%r)' % (t['q'], r))
                out.append(('refused', t, '(* REFUSED %s: unexpected AST shape *)' % t['q']))
        return out


# ---------------------------------------------------------------------------------------------------
# targets of the kernel
NS = '::foonathan::memory'
D = NS + '::detail'
KERNEL = [
    dict(q=D + '::is_valid_alignment', coq='is_valid_alignment'),
    dict(q=D + '::round_up_to_multiple_of_alignment', coq='round_up_to_multiple_of_alignment'),
    dict(q=D + '::align_offset', coq='align_offset', sig='(std::uintptr_t'),
    dict(q=D + '::is_aligned', coq='is_aligned'),
    dict(q=D + '::alignment_for', coq='alignment_for'),
    dict(q=D + '::is_power_of_two', coq='is_power_of_two', sig='(unsigned long)'),
    dict(q=D + '::ilog2_base', coq='ilog2_base'),
    dict(q=D + '::ilog2', coq='ilog2'),
    dict(q=D + '::ilog2_ceil', coq='ilog2_ceil'),
    dict(q=D + '::log2_access_policy::index_from_size', coq='log2_index_from_size'),
    dict(q=D + '::log2_access_policy::size_from_index', coq='log2_size_from_index'),
    dict(q=D + '::identity_access_policy::index_from_size', coq='identity_index_from_size'),
    dict(q=D + '::identity_access_policy::size_from_index', coq='identity_size_from_index'),
    dict(q=D + '::free_memory_list::min_block_size', coq='free_list_min_block_size'),
    dict(q=D + '::free_memory_list::usable_size', coq='free_list_usable_size'),
    dict(q=D + '::ordered_free_memory_list::min_block_size', coq='ordered_list_min_block_size'),
    dict(q=D + '::ordered_free_memory_list::usable_size', coq='ordered_list_usable_size'),
    dict(q=D + '::small_free_memory_list::chunk_count', coq='small_chunk_count'),
    dict(q=D + '::small_free_memory_list::min_block_size', coq='small_list_min_block_size'),
    dict(q=D + '::small_free_memory_list::usable_size', coq='small_list_usable_size'),
    dict(q=D + '::memory_block_stack::implementation_offset', coq='implementation_offset'),
    dict(q=NS + '::memory_arena::min_block_size', coq='arena_min_block_size'),
    dict(q=NS + '::growing_block_allocator::grow_block_size', coq='grow_block_size'),
    dict(q=NS + '::iteration_allocator::block_start', coq='iteration_block_start'),
    dict(q=NS + '::iteration_allocator::block_end', coq='iteration_block_end'),
]

ALWAYS_PROBE = [('alignof', 'foonathan::memory::detail::chunk_base'), ('sizeof', 'foonathan::memory::detail::chunk_base'),
                ('sizeof', 'foonathan::memory::detail::memory_block_stack::node'), ('alignof', 'max_align_t'), ('sizeof', 'char *')]

HEADER = '''(* GENERATED by /verif/vlib/translate.py from the repository's current working tree -- do not edit.
   One Definition per C++ function; N with explicit wrap-around at the C++ width. *)
From Coq Require Import NArith Bool.
From FM Require Import Wrap.
Local Open Scope N_scope.
Local Open Scope bool_scope.
'''

TU = '''// translation unit handed to clang for the AST dump of the arithmetic kernel (never compiled to code)
#include "detail/align.hpp"
#include "detail/ilog2.hpp"
#include "detail/free_list.hpp"
#include "detail/small_free_list.hpp"
#include "detail/free_list_array.hpp"
#include "memory_arena.hpp"
#include "memory_pool.hpp"
#include "memory_stack.hpp"
#include "iteration_allocator.hpp"
#include "detail/align.cpp"
#include "detail/free_list_array.cpp"
#include "detail/small_free_list.cpp"
'''


def ast_dump(repo, incdir, workdir, tu_text=TU, filt='foonathan'):
    os.makedirs(workdir, exist_ok=True)
    tu = os.path.join(workdir, 'kernel_tu.cpp')
    with open(tu, 'w') as f:
        f.write(tu_text)
    cmd = ['clang++', '-std=c++17', '-fsyntax-only', '-w', '-I', incdir, '-I', os.path.join(repo, 'include'),
           '-I', os.path.join(repo, 'include', 'foonathan', 'memory'), '-I', os.path.join(repo, 'src'),
           '-DFOONATHAN_MEMORY=1', '-DFOONATHAN_MEMORY_VERSION_MAJOR=0', '-DFOONATHAN_MEMORY_VERSION_MINOR=7',
           '-DFOONATHAN_MEMORY_VERSION_PATCH=4',
           '-Xclang', '-ast-dump=json', '-Xclang', '-ast-dump-filter=' + filt, tu]
    r = subprocess.run(cmd, stdout=subprocess.PIPE, stderr=subprocess.PIPE, text=True)
    if r.returncode != 0:
        raise Refuse('clang failed on the kernel translation unit:\n' + r.stderr[-2000:])
    return load_docs(r.stdout)


def run_probe(repo, incdir, workdir, probes, tu_text=TU, lib=None):
    """compile a tiny program printing sizeof/alignof for the collected types"""
    if not probes:
        return {}
    src = os.path.join(workdir, 'probe.cpp')
    lines = ['#include <cstdio>', '#include <climits>', '#define private public', '#define protected public', tu_text,
             'using namespace std; using namespace foonathan::memory; using namespace foonathan::memory::detail;', 'int main(){']
    for nm, (kind, t) in sorted(probes.items()):
        lines.append('  std::printf("%s %%zu\\n", (std::size_t)%s(%s));' % (nm, kind, t))
    lines.append('}')
    with open(src, 'w') as f:
        f.write('\n'.join(lines))
    exe = os.path.join(workdir, 'probe')
    cmd = ['g++', '-std=c++17', '-w', '-I', incdir, '-I', os.path.join(repo, 'include'),
           '-I', os.path.join(repo, 'include', 'foonathan', 'memory'), '-I', os.path.join(repo, 'src'),
           '-DFOONATHAN_MEMORY=1', '-DFOONATHAN_MEMORY_VERSION_MAJOR=0', '-DFOONATHAN_MEMORY_VERSION_MINOR=7',
           '-DFOONATHAN_MEMORY_VERSION_PATCH=4', '-fsyntax-only' if False else '-c', src, '-o', exe + '.o']
    r = subprocess.run(cmd, stdout=subprocess.PIPE, stderr=subprocess.STDOUT, text=True)
    if r.returncode != 0:
        raise Refuse('probe program failed to compile:\n' + r.stdout[-2000:])
    # link without the library: the probe only needs constants; provide weak stubs by linking with -Wl,--unresolved-symbols
    r = subprocess.run(['g++', exe + '.o'] + ([lib] if lib else []) + ['-o', exe, '-pthread'], stdout=subprocess.PIPE, stderr=subprocess.STDOUT, text=True)
    if r.returncode != 0:
        raise Refuse('probe program failed to link:\n' + r.stdout[-2000:])
    r = subprocess.run([exe], stdout=subprocess.PIPE, text=True)
    vals = {}
    for ln in r.stdout.split('\n'):
        if ln.strip():
            a, b = ln.split()
            vals[a] = int(b)
    return vals


def generate(repo, incdir, workdir, targets=None, lib=None):
    """returns (text of GenArith.v, errors, targets)"""
    targets = [dict(t) for t in (targets or KERNEL)]
    docs = ast_dump(repo, incdir, workdir)
    idx = Index(docs)
    g = Gen(idx, targets)
    # constants the hand-written models refer to are always measured, whether or not the kernel mentions them
    for kind, t in ALWAYS_PROBE:
        g.probe(kind, t)
    out = g.translate_all()
    errors = list(g.errors)
    try:
        vals = run_probe(repo, incdir, workdir, g.probes, lib=lib)
    except Refuse as r:
        errors.append(str(r)); vals = {}
    txt = [HEADER]
    for nm in sorted(g.probes):
        if nm in vals:
            txt.append('Definition %s : N := %d.  (* %s(%s), measured by the probe program *)' % (nm, vals[nm], g.probes[nm][0], g.probes[nm][1].replace('*', 'ptr')))
        else:
            errors.append('probe value missing for ' + nm)
    txt.append('')
    for cn in g.const_order:
        txt.append(g.consts[cn])
    txt.append('')
    for kind, t, s in out:
        txt.append(s)
        txt.append('')
    return '\n'.join(txt), errors, targets


if __name__ == '__main__':
    sys.path.insert(0, os.path.dirname(os.path.abspath(__file__)))
    import build
    inc = build.config_inc('base')
    text, errs, _ = generate(build.REPO, inc, os.path.join(build.VERIF, 'work', 'tr'), lib=build.build_lib('base'))
    print(text)
    for e in errs:
        print('ERROR', e, file=sys.stderr)
