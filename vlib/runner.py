"""run scripts through a harness (per configuration) and its log through the replay driver, in parallel"""
import subprocess, os, hashlib
from concurrent.futures import ThreadPoolExecutor
from . import build


def run_one(exe, script, timeout=120, args=()):
    try:
        r = subprocess.run([exe] + list(args), input=script, stdout=subprocess.PIPE, stderr=subprocess.PIPE, text=True, timeout=timeout, errors='replace')
        return r.returncode, r.stdout, r.stderr[-2000:]
    except subprocess.TimeoutExpired as e:
        return -999, (e.stdout or b'').decode(errors='replace') if isinstance(e.stdout, bytes) else (e.stdout or ''), 'timeout'


def replay_one(rexe, topic_args, log, timeout=300):
    r = subprocess.run([rexe] + list(topic_args), input=log, stdout=subprocess.PIPE, stderr=subprocess.PIPE, text=True, timeout=timeout, errors='replace')
    out = r.stdout
    summ = {}
    div = []
    for ln in out.split('\n'):
        if ln.startswith('SUMMARY'):
            for kv in ln.split()[1:]:
                k, v = kv.split('=')
                summ[k] = int(v)
        elif ln.startswith('DIVERGE'):
            div.append(ln)
    if r.returncode != 0 or not summ:
        div.append('DIVERGE replay driver failed: ' + (r.stderr[-300:] or out[-300:]))
    return summ, div, out


def run_cases(cases, rexe, workers=16):
    """cases: list of dict(exe, script, replay_args, tag, [args]); returns list of dict(case, rc, log, err, summ, div)"""
    def one(c):
        rc, log, err = run_one(c['exe'], c['script'], args=c.get('args', ()))
        if rexe is None:
            return dict(case=c, rc=rc, log=log, err=err, summ={}, div=[])
        summ, div, rout = replay_one(rexe, c['replay_args'], log)
        return dict(case=c, rc=rc, log=log, err=err, summ=summ, div=div, rout=rout)
    with ThreadPoolExecutor(workers) as ex:
        return list(ex.map(one, cases))


def shrink(script_lines, fails, keep_first=1, budget=60):
    """delta-debugging on script lines (the first keep_first lines are kept); fails(lines)->bool"""
    head, body = script_lines[:keep_first], script_lines[keep_first:]
    n = 2
    steps = 0
    while len(body) >= 2 and steps < budget:
        chunk = max(1, len(body) // n)
        reduced = False
        for i in range(0, len(body), chunk):
            cand = body[:i] + body[i + chunk:]
            steps += 1
            if cand and fails(head + cand):
                body = cand; n = max(n - 1, 2); reduced = True
                break
            if steps >= budget:
                break
        if not reduced:
            if chunk == 1:
                break
            n = min(n * 2, len(body))
    return head + body
