#!/usr/bin/env python3
"""Call-shape extractor: clang JSON AST of class-template *patterns* -> per member function an ordered list of
events (lock_guard declarations, calls with callee name and normalised argument expressions, ifs, returns).
Emits coq/GenShapes.v.  Anything it cannot render is rendered as '?<kind>' (never dropped silently)."""
import json, os, subprocess, sys, re
from . import translate as T

CLASSES = ['allocator_storage', 'locked_allocator', 'fallback_allocator', 'tracked_allocator', 'aligned_allocator',
           'binary_segregator', 'memory_resource_adapter', 'memory_resource_allocator', 'std_allocator',
           'allocator_deallocator', 'allocator_deleter', 'allocator_polymorphic_deallocator', 'allocator_polymorphic_deleter',
           'threshold_segregatable', 'deeply_tracked_block_allocator', 'basic_allocator']

TU = '''#include "allocator_storage.hpp"
#include "threading.hpp"
#include "fallback_allocator.hpp"
#include "tracking.hpp"
#include "aligned_allocator.hpp"
#include "segregator.hpp"
#include "memory_resource_adapter.hpp"
#include "std_allocator.hpp"
#include "deleter.hpp"
#include "smart_ptr.hpp"
'''


HEADER_OF = {}       # class name -> text of the header that defines it (filled by generate)
CUR_CLASS = [None]


def source_ident(n):
    """clang 14 omits the name of an UnresolvedMemberExpr from the JSON: read the identifier at its source offset"""
    txt = HEADER_OF.get(CUR_CLASS[0])
    if not txt:
        return None
    b = n.get('range', {}).get('begin', {})
    b = b.get('expansionLoc', b)
    off = b.get('offset')
    if off is None or off >= len(txt):
        return None
    m = re.match(rb'[A-Za-z_][A-Za-z_0-9]*', txt[off:off + 80])
    return m.group(0).decode() if m else None


def expr(n):
    k = n.get('kind')
    inner = n.get('inner', [])
    if k in ('ImplicitCastExpr', 'ParenExpr', 'ExprWithCleanups', 'MaterializeTemporaryExpr', 'CXXBindTemporaryExpr', 'ConstantExpr',
             'CXXFunctionalCastExpr', 'CXXStaticCastExpr', 'CStyleCastExpr', 'CXXConstCastExpr', 'CXXReinterpretCastExpr'):
        return expr(inner[-1]) if inner else '?cast'
    if k == 'DeclRefExpr':
        return n['referencedDecl'].get('name', '?')
    if k == 'MemberExpr':
        base = expr(inner[0]) if inner else ''
        return n.get('name', '?') if base in ('this', '') else base + '.' + n.get('name', '?')
    if k == 'CXXThisExpr':
        return 'this'
    if k in ('CXXDependentScopeMemberExpr',):
        base = expr(inner[0]) if inner else ''
        return n.get('member', '?') if base in ('this', '') else base + '.' + n.get('member', '?')
    if k in ('UnresolvedMemberExpr', 'UnresolvedLookupExpr'):
        return n.get('name') or source_ident(n) or '?'
    if k == 'DependentScopeDeclRefExpr':
        return 'dep'
    if k == 'IntegerLiteral':
        return str(n.get('value'))
    if k == 'CXXBoolLiteralExpr':
        return 'true' if n.get('value') else 'false'
    if k == 'CXXNullPtrLiteralExpr':
        return 'nullptr'
    if k in ('CallExpr', 'CXXMemberCallExpr', 'CXXOperatorCallExpr'):
        return call_name(n) + '(' + ','.join(expr(a) for a in inner[1:]) + ')'
    if k == 'BinaryOperator':
        return '(' + expr(inner[0]) + n.get('opcode', '?') + expr(inner[1]) + ')'
    if k == 'UnaryOperator':
        return n.get('opcode', '?') + expr(inner[0])
    if k == 'ConditionalOperator':
        return '(' + expr(inner[0]) + '?' + expr(inner[1]) + ':' + expr(inner[2]) + ')'
    if k == 'UnaryExprOrTypeTraitExpr':
        t = n.get('argType', {}).get('qualType') or (inner and inner[0].get('type', {}).get('qualType')) or '?'
        return n.get('name', 'sizeof') + '(' + t + ')'
    if k in ('CXXUnresolvedConstructExpr', 'CXXTemporaryObjectExpr', 'CXXConstructExpr', 'InitListExpr', 'ParenListExpr'):
        return '{' + ','.join(expr(a) for a in inner) + '}'
    if k == 'LambdaExpr':
        return 'lambda'
    if k == 'CXXDefaultArgExpr':
        return 'default'
    if k == 'CXXNoexceptExpr':
        return 'noexcept'
    if k == 'ArraySubscriptExpr':
        return expr(inner[0]) + '[' + expr(inner[1]) + ']'
    return '?' + str(k)


def call_name(n):
    c = n['inner'][0]
    while c.get('kind') in ('ImplicitCastExpr', 'ParenExpr'):
        c = c['inner'][0]
    return expr(c)


def events(n, out):
    """flatten a statement into events"""
    k = n.get('kind')
    if k in ('CompoundStmt',):
        for c in n.get('inner', []):
            events(c, out)
    elif k == 'DeclStmt':
        for v in n.get('inner', []):
            if v.get('kind') != 'VarDecl':
                continue
            t = v.get('type', {}).get('qualType', '')
            if 'lock_guard' in t or 'unique_lock' in t or 'scoped_lock' in t:
                out.append(('lock', v.get('name', ''), []))
            for c in v.get('inner', []):
                calls_in(c, out)
    elif k == 'ReturnStmt':
        for c in n.get('inner', []):
            calls_in(c, out)
        out.append(('return', '', []))
    elif k == 'IfStmt':
        inner = n.get('inner', [])
        out.append(('if', expr(inner[0]) if inner else '', []))
        calls_in(inner[0], out)
        if len(inner) > 1:
            events(inner[1], out)
        if len(inner) > 2:
            out.append(('else', '', []))
            events(inner[2], out)
        out.append(('endif', '', []))
    elif k in ('NullStmt',):
        pass
    elif k in ('CXXTryStmt', 'CXXCatchStmt', 'ForStmt', 'WhileStmt', 'DoStmt', 'CXXForRangeStmt'):
        out.append((k, '', []))
        for c in n.get('inner', []):
            events(c, out)
    else:
        calls_in(n, out)


def calls_in(n, out):
    """post-order: every call expression with its callee name and normalised arguments"""
    k = n.get('kind')
    if k == 'LambdaExpr':
        return
    for c in n.get('inner', []):
        calls_in(c, out)
    if k in ('CallExpr', 'CXXMemberCallExpr'):
        out.append(('call', call_name(n), [expr(a) for a in n['inner'][1:]]))
    elif k == 'BinaryOperator' and n.get('opcode') == '=':
        out.append(('assign', expr(n['inner'][0]), [expr(n['inner'][1])]))


def collect(docs, classes):
    res = []    # (class, method, isctor, events)

    def walk(n, cls):
        k = n.get('kind')
        if k in ('ClassTemplateDecl', 'NamespaceDecl', 'TranslationUnitDecl', 'LinkageSpecDecl'):
            for c in n.get('inner', []):
                walk(c, cls)
        elif k in ('CXXRecordDecl',):
            nm = n.get('name', '')
            for c in n.get('inner', []):
                walk(c, nm if nm in classes else cls)
        elif k == 'ClassTemplatePartialSpecializationDecl':
            # a partial specialization is a pattern of its own (e.g. the array forms of the deleters): listed as <name>#partial
            nm = n.get('name', '')
            for c in n.get('inner', []):
                walk(c, (nm + '#partial') if nm in classes else cls)
        elif k == 'ClassTemplateSpecializationDecl':
            return       # instantiations: patterns only
        elif k in ('CXXMethodDecl', 'CXXConstructorDecl', 'CXXDestructorDecl', 'FunctionTemplateDecl') and cls:
            if k == 'FunctionTemplateDecl':
                for c in n.get('inner', []):
                    walk(c, cls)
                return
            body = [x for x in n.get('inner', []) if x.get('kind') == 'CompoundStmt']
            if not body:
                return
            CUR_CLASS[0] = cls.split('#')[0]
            ev = []
            # constructor member initialisers
            for x in n.get('inner', []):
                if x.get('kind') == 'CXXCtorInitializer':
                    for c in x.get('inner', []):
                        calls_in(c, ev)
            events(body[0], ev)
            params = [p.get('name', '') for p in n.get('inner', []) if p.get('kind') == 'ParmVarDecl']
            sig = n.get('type', {}).get('qualType', '')
            res.append((cls, n.get('name', ''), k, params, sig, ev))
    for d in docs:
        walk(d, None)
    return res


def coq_str(s):
    return '"' + s.replace('"', "'") + '"'


def generate(repo, incdir, workdir):
    docs = []
    errs = []
    incroot = os.path.join(repo, 'include', 'foonathan', 'memory')
    for fn in sorted(os.listdir(incroot)):
        if fn.endswith('.hpp'):
            txt = open(os.path.join(incroot, fn), 'rb').read()     # clang offsets are byte offsets
            for c in CLASSES:
                if re.search(rb'\b(class|struct)\s+' + c.encode() + rb'\s*(:|\n|\{)', txt):
                    HEADER_OF.setdefault(c, txt)
    for filt in CLASSES:
        try:
            docs += T.ast_dump(repo, incdir, workdir, tu_text=TU, filt=filt)
        except T.Refuse as r:
            errs.append(str(r))
    rows = collect(docs, set(CLASSES))
    seen = set()
    out = ['(* GENERATED by /verif/vlib/shapes.py from the class-template patterns of the current working tree -- do not edit.',
           '   Per member function: ordered events (lock declarations, calls with normalised arguments, ifs, returns). *)',
           'From Coq Require Import String List.', 'Import ListNotations.', 'Local Open Scope string_scope.', '',
           'Inductive sev := SLock | SCall (callee : string) (args : list string) | SAssign (lhs rhs : string) | SIf (cond : string) | SElse | SEndIf | SReturn | SOther (what : string).',
           'Record member := { m_class : string; m_name : string; m_params : list string; m_const : bool; m_events : list sev }.', '',
           'Definition members : list member := [']
    items = []
    for cls, name, kind, params, sig, ev in rows:
        key = (cls, name, tuple(params), sig)
        if key in seen:
            continue
        seen.add(key)
        evs = []
        for e in ev:
            if e[0] == 'lock':
                evs.append('SLock')
            elif e[0] == 'call':
                evs.append('SCall %s [%s]' % (coq_str(e[1]), '; '.join(coq_str(a) for a in e[2])))
            elif e[0] == 'assign':
                evs.append('SAssign %s %s' % (coq_str(e[1]), coq_str(e[2][0])))
            elif e[0] == 'if':
                evs.append('SIf %s' % coq_str(e[1]))
            elif e[0] == 'endif':
                evs.append('SEndIf')
            elif e[0] == 'else':
                evs.append('SElse')
            elif e[0] == 'return':
                evs.append('SReturn')
            else:
                evs.append('SOther %s' % coq_str(e[0]))
        const = 'true' if re.search(r'\)\s*const', sig) else 'false'
        items.append('  {| m_class := %s; m_name := %s; m_params := [%s]; m_const := %s;\n     m_events := [%s] |}' %
                     (coq_str(cls), coq_str(name), '; '.join(coq_str(p) for p in params), const, '; '.join(evs)))
    out.append(';\n'.join(items))
    out.append('].')
    return '\n'.join(out) + '\n', errs, rows


if __name__ == '__main__':
    sys.path.insert(0, os.path.dirname(os.path.dirname(os.path.abspath(__file__))))
    from vlib import build
    text, errs, rows = generate(build.REPO, build.config_inc('base'), os.path.join(build.VERIF, 'work', 'sh'))
    for cls, name, kind, params, sig, ev in rows:
        if len(sys.argv) > 1 and cls != sys.argv[1]:
            continue
        print(cls, name, params, '|', ' ; '.join('%s %s(%s)' % (e[0], e[1], ','.join(e[2])) for e in ev))
    for e in errs:
        print('ERR', e)
