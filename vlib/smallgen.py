"""scripts for the small free list driven directly (h_invalid.cpp, mode small), replayed against SmallList"""


def gen_small_chunks(rng, bads=True):
    """many small chunks (blocks whose remainder chunk holds 1..6 nodes, or one full chunk plus a remainder) inserted out of
    address order, also between allocations: the chunk search of allocate() (alloc cursor, dealloc cursor, then both ways
    round the ring) and of deallocate() (both halves around the dealloc cursor) is what is exercised"""
    ns = rng.choice([1, 3, 8, 16, 40])
    lines = ['small %d %s' % (ns, rng.choice(['low', 'high']))]
    slots = list(range(0, 24)); rng.shuffle(slots)
    def ins():
        k = slots.pop()
        if rng.random() < 0.15 and ns <= 8:
            size = 32 + ns * 255 + (8 - (32 + ns * 255) % 8) % 8 + 32 + ns * rng.randint(0, 3) + rng.randint(0, ns - 1)     # a full chunk, perhaps a remainder chunk
        else:
            size = 32 + ns * rng.randint(1, 6) + rng.randint(0, ns - 1)
        lines.append('ins %d %d' % (k * 4096 + rng.choice([0, 16, 256]), size))
    for _ in range(rng.randint(1, 4)):
        ins()
    for _ in range(rng.randint(40, 160)):
        r = rng.random()
        if r < 0.5:
            lines.append('a')
        elif r < 0.8:
            lines.append('d %d' % rng.randint(0, 60))
        elif r < 0.9 and slots:
            ins()
        elif not bads:
            lines.append('a')
        elif r < 0.95:
            lines.append('bad dbl %d' % rng.randint(0, 30))
        else:
            lines.append('bad outside %d' % rng.choice([-64, 8, 24, 4096 * rng.randint(0, 23) + 3500, 100000]))
    return '\n'.join(lines) + '\n'


def live_oracle(log):
    """the property on the implementation alone: a node handed out overlaps no node that is still out"""
    msgs = []; live = set(); ns = None
    for ln in log.split('\n'):
        head = ln.split('|')[0]
        if head.startswith('small ') and '=' in head:
            ns = int(head.split()[1]); continue
        if '=' not in head or ns is None:
            continue
        lhs, rhs = [x.split() for x in head.split('=', 1)]
        if lhs[:1] == ['a'] and rhs[:1] == ['ok']:
            p = int(rhs[1])
            for q in live:
                if abs(p - q) < ns:
                    msgs.append('small list: allocate() returned the node at %d while the node at %d (node size %d) is still out' % (p, q, ns)); break
            live.add(p)
        elif lhs[:1] == ['d'] and rhs[:1] == ['released']:
            live.discard(int(rhs[1]))
    return msgs
