"""Regenerate container_node_sizes_impl.hpp from the working tree's own cmake/get_container_node_sizes.cmake
(a three-line CMake project that includes it), cached by tree hash.  Returns the path of the generated header."""
import os, subprocess
from . import build


def generate(repo=None):
    repo = repo or build.REPO
    th = build.tree_hash(repo)
    d = os.path.join(build.CACHE, 'lib', th, 'nodesizes')
    out = os.path.join(d, 'container_node_sizes_impl.hpp')
    with build.Lock('nodesizes_' + th):
        if os.path.exists(out):
            return out
        os.makedirs(d, exist_ok=True)
        with open(os.path.join(d, 'CMakeLists.txt'), 'w') as f:
            f.write('cmake_minimum_required(VERSION 3.14)\nproject(fm_node_sizes CXX)\nset(CMAKE_CXX_STANDARD 17)\n'
                    'include(%s/cmake/get_container_node_sizes.cmake)\n'
                    'get_container_node_sizes(${CMAKE_BINARY_DIR}/container_node_sizes_impl.hpp)\n' % repo)
        r = build.run(['cmake', '-S', d, '-B', os.path.join(d, 'b'), '-G', 'Ninja', '-DCMAKE_BUILD_TYPE=Release'], timeout=900)
        gen = os.path.join(d, 'b', 'container_node_sizes_impl.hpp')
        if r.returncode != 0 or not os.path.exists(gen):
            raise build.BuildError('node size generation failed:\n' + r.stdout[-2000:])
        os.replace(gen, out)
    return out


def parse(path):
    """{container: {alignment: base size}} from the generated header"""
    import re
    txt = open(path).read()
    res = {}
    for m in re.finditer(r'struct (\w+)_node_size<(\d+)>\s*:\s*std::integral_constant<std::size_t,\s*(\d+)>', txt):
        res.setdefault(m.group(1), {})[int(m.group(2))] = int(m.group(3))
    return res


if __name__ == '__main__':
    p = generate()
    print(p)
    import json
    print(json.dumps(parse(p), indent=0)[:1500])
