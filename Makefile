.PHONY: setup clean
setup:
	python3 tools/setup.py
clean:
	rm -rf .cache work ocaml/build coq/*.vo coq/*.vok coq/*.vos coq/*.glob coq/.*.aux coq/Makefile coq/Makefile.conf coq/.Makefile.d coq/model.ml coq/model.mli
