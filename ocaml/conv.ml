(* conversions between text and the extracted inductive number types (no OCaml int involved in model values) *)
open Model

let rec pos_of_bits (bits : bool list) : positive =
  (* bits: most significant first, first is true *)
  match bits with
  | [] -> XH
  | _ ->
    let rec go acc = function
      | [] -> acc
      | b :: tl -> go (if b then XI acc else XO acc) tl in
    (match bits with true :: tl -> go XH tl | _ -> failwith "pos_of_bits")

let n_of_hex (s : string) : n =
  let bits = ref [] in
  String.iter (fun c ->
      let v = match c with
        | '0'..'9' -> Char.code c - 48
        | 'a'..'f' -> Char.code c - 87
        | 'A'..'F' -> Char.code c - 55
        | _ -> failwith ("bad hex " ^ s) in
      bits := !bits @ [v land 8 <> 0; v land 4 <> 0; v land 2 <> 0; v land 1 <> 0]) s;
  let rec strip = function false :: tl -> strip tl | l -> l in
  match strip !bits with
  | [] -> N0
  | l -> Npos (pos_of_bits l)

let hex_of_n (x : n) : string =
  match x with
  | N0 -> "0"
  | Npos p ->
    let rec bits p acc = match p with
      | XH -> true :: acc
      | XO q -> bits q (false :: acc)
      | XI q -> bits q (true :: acc) in
    let bl = bits p [] in
    (* pad to multiple of 4 *)
    let len = List.length bl in
    let pad = (4 - len mod 4) mod 4 in
    let bl = (List.init pad (fun _ -> false)) @ bl in
    let buf = Buffer.create 16 in
    let rec go = function
      | a :: b :: c :: d :: tl ->
        let v = (if a then 8 else 0) + (if b then 4 else 0) + (if c then 2 else 0) + (if d then 1 else 0) in
        Buffer.add_char buf "0123456789abcdef".[v]; go tl
      | _ -> () in
    go bl; Buffer.contents buf

let n_of_bool (b : bool) : n = if b then Npos XH else N0

let rec pos_of_int (i : int) : positive =
  if i = 1 then XH else if i land 1 = 1 then XI (pos_of_int (i lsr 1)) else XO (pos_of_int (i lsr 1))
let n_of_int (i : int) : n = if i = 0 then N0 else Npos (pos_of_int i)
let z_of_int (i : int) : z = if i = 0 then Z0 else if i > 0 then Zpos (pos_of_int i) else Zneg (pos_of_int (- i))
let rec int_of_pos (p : positive) : int = match p with XH -> 1 | XO q -> 2 * int_of_pos q | XI q -> 2 * int_of_pos q + 1
let int_of_n (x : n) : int = match x with N0 -> 0 | Npos p -> int_of_pos p
let int_of_z (x : z) : int = match x with Z0 -> 0 | Zpos p -> int_of_pos p | Zneg p -> - (int_of_pos p)
let rec nat_of_int (i : int) : nat = if i <= 0 then O else S (nat_of_int (i - 1))
let rec int_of_nat (n : nat) : int = match n with O -> 0 | S m -> 1 + int_of_nat m

let split_ws (s : string) : string list =
  List.filter (fun x -> x <> "") (String.split_on_char ' ' (String.trim s))
