(* C09: leaf call logs of wrapper compositions against Compose.forward; C08: fallback routing against alloc_leaf / dealloc_leaf *)
open Model
open Conv

let zi = z_of_int and iz = int_of_z

let chain comp = match comp with
  | 1 -> [WAligned (zi 32)] | 2 | 3 | 4 | 6 -> [WPass] | 5 -> [WAny] | 7 -> [WSegregator (zi 64)]
  | 8 -> [WAligned (zi 16); WPass] | 9 -> [WPass; WAligned (zi 64)] | 11 -> [WPass; WAligned (zi 32)]
  | 12 -> [WAligned (zi 16); WPass; WSegregator (zi 64)] | 13 -> [WPass; WAligned (zi 128); WPass] | 15 -> [WAligned (zi 32); WPass] | 16 -> [WAligned (zi 64)] | 17 -> [WAligned (zi 128)] | _ -> [WPass]
let tracked comp leaf = match comp with 2 | 8 | 9 | 12 | 13 | 14 | 15 | 18 -> true | 10 -> leaf = 1 | _ -> false

(* what the tracker sees: the request after the wrappers outside of it *)
let tracker_prefix comp = match comp with 8 -> [WAligned (zi 16)] | 15 -> [WAligned (zi 32)] | 12 -> [WAligned (zi 16)] | 13 -> [WPass; WAligned (zi 128)] | _ -> []
let show_call op (c : lcall) = Printf.sprintf "L%d:%s:%d:%d:%d" (int_of_nat c.lc_leaf) op (iz c.lc_count) (iz c.lc_size) (iz c.lc_align)

let run_fwd () =
  let total = ref 0 and bad = ref 0 in
  let diverge msg line = incr bad; if !bad <= 12 then Printf.printf "DIVERGE %s :: %s\n" msg line in
  (try
     while true do
       let line = input_line stdin in
       match String.index_opt line '=' with
       | None -> ()
       | Some i ->
         let lhs = split_ws (String.sub line 0 i) and obs = split_ws (String.sub line (i + 1) (String.length line - i - 1)) in
         let leafs = List.filter (fun t -> t.[0] = 'L') obs and trk = List.filter (fun t -> t.[0] = 'T') obs in
         (match lhs with
          | comp :: op :: args when List.mem op ["an"; "aa"; "dn"; "da"; "tan"; "taa"; "tdn"; "tda"] ->
            incr total;
            let comp = int_of_string comp in
            let arr = (op.[String.length op - 1] = 'a') && String.length op >= 2 && (op = "aa" || op = "da" || op = "taa" || op = "tda") in
            let (c, s, a) = (match args with
                | [x; y; z] when arr -> (int_of_string x, int_of_string y, int_of_string z)
                | x :: y :: _ -> (1, int_of_string x, int_of_string y) | _ -> (1, 1, 1)) in
            if List.mem "notcomposable" obs then ()
            else begin
              let req = { lc_leaf = O; lc_kind = (if arr then KArray else KNode); lc_count = zi c; lc_size = zi s; lc_align = zi a } in
              let m = if comp = 10 then
                  (let d = through (WSegregator (zi 100)) req in if int_of_nat d.lc_leaf = 0 then through (WAligned (zi 8)) d else d)
                else forward (chain comp) req in
              let pre = if op.[0] = 't' then "t" else "" in
              let verb = String.make 1 op.[String.length pre] in
              let lop = pre ^ verb ^ (if m.lc_kind = KArray then "a" else "n") in
              let exp = show_call lop m in
              if leafs <> [exp] then diverge ("model leaf call " ^ exp) line;
              let texp = if tracked comp (int_of_nat m.lc_leaf) && not ((comp = 14 || comp = 15) && op.[0] = 't') then
                  [Printf.sprintf "T:%s:%d:%d:%d" (let o = if op.[0] = 't' then String.sub op 1 2 else op in o) (iz m.lc_count) (iz m.lc_size) (iz (forward (tracker_prefix comp) req).lc_align)] else [] in
              if trk <> texp then diverge ("tracker must see " ^ String.concat " " texp) line
            end
          | comp :: "std" :: n :: _ ->
            incr total;
            let (sT, aT, extra) = (match int_of_string comp with 1 -> (1, 1, []) | 2 -> (24, 1, []) | 3 -> (64, 32, []) | 4 -> (70000, 1, []) | _ -> (8, 8, [WAligned (zi 32)])) in
            let req = { lc_leaf = O; lc_kind = KNode; lc_count = zi (int_of_string n); lc_size = zi 0; lc_align = zi 0 } in
            let m = forward (WStd (zi sT, zi aT) :: extra) req in
            let arr = (m.lc_kind = KArray) in
            let exp = [show_call (if arr then "aa" else "an") m; show_call (if arr then "da" else "dn") m] in
            if leafs <> exp then diverge ("model leaf calls " ^ String.concat " " exp) line
          | _ :: "res" :: bytes :: al :: _ ->
            incr total;
            let req = { lc_leaf = O; lc_kind = KNode; lc_count = zi 1; lc_size = zi (int_of_string bytes); lc_align = zi (int_of_string al) } in
            let m = forward [WResource (zi 256)] req in
            let arr = (m.lc_kind = KArray) in
            let exp = [show_call (if arr then "aa" else "an") m; show_call (if arr then "da" else "dn") m] in
            if leafs <> exp then diverge ("model leaf calls " ^ String.concat " " exp) line
          | _ :: "mra" :: bytes :: al :: _ ->
            (* memory_resource_allocator (WNodeOnly) over a recording resource (leaf 9): a node request, an array of three through
               the traits, two 24-byte objects through std_allocator: each reaches the resource as one node, and comes back the same *)
            incr total;
            let b = int_of_string bytes and a = int_of_string al in
            let nine = nat_of_int 9 in
            let r1 = forward [WNodeOnly] { lc_leaf = nine; lc_kind = KNode; lc_count = zi 1; lc_size = zi b; lc_align = zi a } in
            let r2 = forward [WNodeOnly] { lc_leaf = nine; lc_kind = KArray; lc_count = zi 3; lc_size = zi b; lc_align = zi a } in
            let r3 = forward [WStd (zi 24, zi 1); WNodeOnly] { lc_leaf = nine; lc_kind = KNode; lc_count = zi 2; lc_size = zi 0; lc_align = zi 0 } in
            let exp = List.concat_map (fun m -> [show_call "an" m; show_call "dn" m]) [r1; r2; r3] in
            if leafs <> exp then diverge ("model calls at the memory resource " ^ String.concat " " exp) line
          | _ :: "uniq" :: n :: _ ->
            incr total;
            let n = max 1 (int_of_string n) in
            (* every allocation is followed by the release with identical kind/count/size/alignment *)
            let rec pairs = function
              | a :: d :: tl ->
                let pa = String.split_on_char ':' a and pd = String.split_on_char ':' d in
                (match pa, pd with
                 | [l1; o1; c1; s1; a1], [l2; o2; c2; s2; a2] ->
                   if not (l1 = l2 && c1 = c2 && s1 = s2 && a1 = a2 && ((o1 = "an" && o2 = "dn") || (o1 = "aa" && o2 = "da"))) then diverge ("release " ^ d ^ " does not match allocation " ^ a) line
                 | _ -> diverge "malformed leaf call" line);
                pairs tl
              | [_] -> diverge "unpaired leaf call" line
              | [] -> () in
            pairs leafs;
            (match leafs with
             | a1 :: _ :: a2 :: _ :: a3 :: _ ->
               if a1 <> "L0:an:1:24:1" then diverge "allocate_unique<T> must ask for one node of sizeof(T)" line;
               if a2 <> Printf.sprintf "L0:aa:%d:24:1" n then diverge "allocate_unique<T[]> must ask for one array of n elements" line;
               if not (String.length a3 > 8 && String.sub a3 0 8 = "L0:an:1:" && int_of_string (List.nth (String.split_on_char ':' a3) 3) > 65535) then diverge "big derived type must be one node of its full size" line
             | _ -> diverge "expected four allocate/release pairs" line)
          | _ -> ())
     done
   with End_of_file -> ());
  Printf.printf "SUMMARY total=%d diverged=%d\n" !total !bad

let run_fb () =
  (* tree: FFallback (FFallback (FLeaf 0, FLeaf 1), FLeaf 2); capacities before/after per leaf *)
  let tree = FFallback (FFallback (FLeaf O, FLeaf (S O)), FLeaf (S (S O))) in
  let total = ref 0 and bad = ref 0 in
  let diverge msg line = incr bad; if !bad <= 12 then Printf.printf "DIVERGE %s :: %s\n" msg line in
  let served = Hashtbl.create 64 in
  let nexth = ref 0 in
  let order = ref [] in
  (try
     while true do
       let line = input_line stdin in
       match String.split_on_char '|' line with
       | [head; before; after] ->
         incr total;
         let b = List.map int_of_string (split_ws before) and a = List.map int_of_string (split_ws after) in
         let diffs = List.mapi (fun i (x, y) -> (i, y - x)) (List.combine b a) in
         let changed = List.filter (fun (_, d) -> d <> 0) diffs in
         let (lhs, rhs) = (match String.index_opt head '=' with Some i -> (split_ws (String.sub head 0 i), split_ws (String.sub head (i + 1) (String.length head - i - 1))) | None -> ([], [])) in
         (match lhs, rhs with
          | ("an" | "aa" | "tan") :: _, "ok" :: _ ->
            (match changed with
             | [(leaf, d)] when d < 0 ->
               Hashtbl.replace served !nexth (leaf, -d); order := !order @ [!nexth]; incr nexth;
               (* a single-node request is served by the first leaf (in tree order) that still has a node *)
               if List.hd lhs <> "aa" then begin
                 let can l = List.nth b (int_of_nat l) > 0 in
                 let m = int_of_nat (alloc_leaf can tree) in
                 if m <> leaf then diverge (Printf.sprintf "model: served by leaf %d" m) line
               end
             | _ -> diverge "an allocation must take memory from exactly one leaf" line)
          | ("an" | "aa" | "tan") :: _, _ -> ()
          | "tdx" :: _, _ ->
            if changed <> [] || rhs <> ["foreign"; "false"] then diverge "foreign memory must be refused and change nothing" line
          | ("d" | "td") :: k :: _, _ ->
            if List.hd lhs = "td" && (match rhs with "tried" :: "true" :: _ -> false | _ -> true) then diverge "try_deallocate of own memory must return true" line;
            (match !order with
             | [] -> ()
             | _ ->
               let idx = (int_of_string k) mod (List.length !order) in
               let h = List.nth !order idx in
               order := List.filteri (fun i _ -> i <> idx) !order;
               let (leaf, amount) = Hashtbl.find served h in
               (match changed with
                | [(l2, d)] when d > 0 ->
                  (* the model: the release goes to the leaf that owns the memory, which is the leaf that served it *)
                  let owns l _ = (int_of_nat l = leaf) in
                  let m = int_of_nat (dealloc_leaf owns tree (zi 0)) in
                  if l2 <> m then diverge (Printf.sprintf "released to leaf %d, served by (model: owner) leaf %d" l2 m) line;
                  if d <> amount then diverge (Printf.sprintf "released %d bytes of capacity, took %d" d amount) line
                | _ -> diverge "a release must give memory back to exactly one leaf" line))
          | _ -> ())
       | _ -> ()
     done
   with End_of_file -> ());
  Printf.printf "SUMMARY total=%d diverged=%d\n" !total !bad

(* nested fallback over instrumented composable leaves: serving / releasing leaf and call parameters *)
let run_fbl () =
  let tree = FFallback (FFallback (FFallback (FLeaf O, FLeaf (S O)), FLeaf (S (S O))), FLeaf (S (S (S O)))) in
  let total = ref 0 and bad = ref 0 in
  let diverge msg line = incr bad; if !bad <= 12 then Printf.printf "DIVERGE %s :: %s\n" msg line in
  let rooms = ref [| 2; 2; 3; max_int |] and out = [| 0; 0; 0; 0 |] in
  let hs = ref [] in   (* (leaf, kind, c, s, a) in handle order *)
  (try
     while true do
       let line = input_line stdin in
       match split_ws line with
       | "rooms" :: a :: b :: c :: _ -> rooms := [| int_of_string a; int_of_string b; int_of_string c; max_int |]
       | _ ->
         (match String.index_opt line '|' with
          | None -> ()
          | Some i ->
            incr total;
            let head = String.sub line 0 i and log = split_ws (String.sub line (i + 1) (String.length line - i - 1)) in
            let calls = List.map (fun t -> match String.split_on_char ':' t with
                | [l; op; c; s; a; r] -> (int_of_string (String.sub l 1 (String.length l - 1)), op, int_of_string c, int_of_string s, int_of_string a, r)
                | _ -> (-1, "?", 0, 0, 0, "?")) log in
            let lhs = split_ws (String.sub head 0 (String.index head '=')) in
            (match lhs with
             | op :: args when List.mem op ["an"; "tan"; "aa"; "taa"] ->
               let arr = (op = "aa" || op = "taa") in
               let (c, s, a) = (match args with [x; y; z] when arr -> (int_of_string x, int_of_string y, int_of_string z) | [y; z] -> (1, int_of_string y, int_of_string z) | _ -> (1, 16, 8)) in
               let can l = out.(int_of_nat l) < !rooms.(int_of_nat l) in
               let m = int_of_nat (alloc_leaf can tree) in
               (* the model's call list: every leaf before m is tried (composable function, null), then m answers *)
               let kindc = if arr then "a" else "n" in
               let exp = List.init (m + 1) (fun l ->
                   if l < m then (l, "ta" ^ kindc, c, s, a, "null")
                   else if m = 3 && op.[0] <> 't' then (l, "a" ^ kindc, c, s, a, "ok") else (l, "ta" ^ kindc, c, s, a, "ok")) in
               if calls <> exp then diverge (Printf.sprintf "model: leaves 0..%d tried with the request unchanged, leaf %d serves" (m - 1) m) line;
               out.(m) <- out.(m) + 1;
               hs := !hs @ [(m, arr, c, s, a)]
             | ("d" | "td") :: k :: _ ->
               (match !hs with
                | [] -> ()
                | _ ->
                  let idx = int_of_string k mod List.length !hs in
                  let (leaf, arr, c, s, a) = List.nth !hs idx in
                  hs := List.filteri (fun j _ -> j <> idx) !hs;
                  let owns l _ = (int_of_nat l = leaf) in
                  let m = int_of_nat (dealloc_leaf owns tree (zi 0)) in
                  let kindc = if arr then "a" else "n" in
                  let exp = List.init (m + 1) (fun l ->
                      if l < m then (l, "td" ^ kindc, c, s, a, "false")
                      else if m = 3 && List.hd lhs = "d" then (l, "d" ^ kindc, c, s, a, "own") else (l, "td" ^ kindc, c, s, a, "true")) in
                  if calls <> exp then diverge (Printf.sprintf "model: released to leaf %d with the parameters of the allocation" m) line;
                  out.(m) <- out.(m) - 1)
             | "tdx" :: _ ->
               if List.exists (fun (_, _, _, _, _, r) -> r <> "false") calls || List.length calls <> 4 then diverge "foreign memory: every leaf asked, every leaf refuses" line
             | _ -> ()))
     done
   with End_of_file -> ());
  Printf.printf "SUMMARY total=%d diverged=%d\n" !total !bad
