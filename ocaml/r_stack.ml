(* lock-step replay of a memory_stack log against Stack.step *)
open Model
open Conv

let zi = z_of_int
let iz = int_of_z

type uc = UA of int * int option | UF of int * int   (* size, answer | addr, size *)

let parse_calls (s : string) : uc list * string list =
  let toks = Array.of_list (split_ws s) in
  let n = Array.length toks in
  let evs = ref [] and errs = ref [] in
  let i = ref 0 in
  while !i < n do
    (match toks.(!i) with
     | "U+" -> if toks.(!i + 3) = "fail" then evs := UA (int_of_string toks.(!i + 1), None) :: !evs
       else evs := UA (int_of_string toks.(!i + 1), Some (int_of_string toks.(!i + 3))) :: !evs; i := !i + 4
     | "U-" -> evs := UF (int_of_string toks.(!i + 3), int_of_string toks.(!i + 1)) :: !evs; i := !i + 4
     | t -> errs := t :: !errs; incr i)
  done;
  (List.rev !evs, List.rev !errs)

let model_calls (l : ucall list) : uc list =
  List.map (function UAlloc (sz, a) -> UA (iz sz, (match a with Some x -> Some (iz x) | None -> None)) | UFree (a, sz) -> UF (iz a, iz sz)) l

let kv (s : string) : (string * int) list =
  List.filter_map (fun t -> match String.split_on_char '=' t with
      | [k; v] -> (try Some (k, int_of_string v) with _ -> None) | _ -> None) (split_ws s)

let run fence =
  let st = ref None in
  let markers = Hashtbl.create 16 in
  let ops = ref 0 and bad = ref 0 and lineno = ref 0 and grows = ref 0 and unwinds = ref 0 and xblock = ref 0 in
  let diverge msg line = incr bad; if !bad <= 12 then Printf.printf "DIVERGE line %d: %s :: %s\n" !lineno msg line in
  let zf = zi fence in
  (try
     while true do
       let line = input_line stdin in
       incr lineno;
       match String.split_on_char '|' line with
       | [head; evs; caps] ->
         let (lhs, rhs) = match String.index_opt head '=' with
           | Some i -> (split_ws (String.sub head 0 i), split_ws (String.sub head (i + 1) (String.length head - i - 1)))
           | None -> (split_ws head, []) in
         let (calls, uerrs) = parse_calls evs in
         if uerrs <> [] then diverge ("upstream-side error " ^ String.concat " " uerrs) line;
         let caps = kv caps in
         let answer = List.fold_left (fun acc c -> match c with UA (_, a) -> (match a with Some x -> Some (zi x) | None -> None) | _ -> acc) None calls in
         let has_ua = List.exists (function UA _ -> true | _ -> false) calls in
         let answer = if has_ua then answer else Some (zi 0) in
         let do_step s o =
           incr ops;
           let (((s', out), mcalls), _writes) = step zf s o answer in
           st := Some s';
           if model_calls mcalls <> calls then diverge "upstream calls differ from the model's" line;
           (s', out) in
         (match lhs, rhs with
          | "stack" :: bs :: src :: _, "ok" :: _ ->
            let k = if src = "fixed" then SrcFixed else SrcGrow in
            (match init k (zi (int_of_string bs)) answer with
             | Some (s, mcalls) -> st := Some s; if model_calls mcalls <> calls then diverge "constructor upstream calls differ" line
             | None -> diverge "model constructor fails" line)
          | "stack" :: _, _ -> Printf.printf "NOTE constructor failed: %s\n" line
          | (("a" | "t") as o) :: size :: al :: _, _ ->
            (match !st with
             | None -> ()
             | Some s ->
               let sz = zi (int_of_string size) and a = zi (int_of_string al) in
               let (_, out) = do_step s (if o = "a" then SAlloc (sz, a) else STry (sz, a)) in
               if List.exists (function UA (_, Some _) -> true | _ -> false) calls then incr grows;
               (match out, rhs with
                | SOk p, "ok" :: off :: _ -> if iz p <> int_of_string off then diverge (Printf.sprintf "model address %d" (iz p)) line
                | SNull, "null" :: _ -> ()
                | SThrowUpstream, "throw" :: "bad_alloc" :: _ -> ()
                | SThrowFixed, "throw" :: "oofm" :: rest -> if (try List.assoc "oom" (kv (String.concat " " rest)) with Not_found -> 0) <> 1 then diverge "out_of_memory handler not called exactly once" line
                | SThrowBadSize, "throw" :: "bad_size" :: rest -> if (try List.assoc "bad" (kv (String.concat " " rest)) with Not_found -> 0) <> 1 then diverge "bad_allocation_size handler not called exactly once" line
                | SOk p, _ -> diverge (Printf.sprintf "model serves the request at %d" (iz p)) line
                | SNull, _ -> diverge "model returns null" line
                | SThrowUpstream, _ -> diverge "model propagates the upstream failure" line
                | SThrowFixed, _ -> diverge "model throws out_of_fixed_memory" line
                | SThrowBadSize, _ -> diverge "model throws bad_allocation_size" line
                | _ -> diverge "unexpected model outcome" line))
          | "top" :: _, mk :: idx :: top :: e :: _ ->
            (match !st with
             | None -> ()
             | Some s ->
               let (_, out) = do_step s STop in
               (match out with
                | SMarker m ->
                  if int_of_nat m.m_index <> int_of_string idx || iz m.m_top <> int_of_string top || iz m.m_end <> int_of_string e
                  then diverge (Printf.sprintf "marker: model (%d,%d,%d)" (int_of_nat m.m_index) (iz m.m_top) (iz m.m_end)) line;
                  Hashtbl.replace markers mk m
                | _ -> diverge "unexpected model outcome" line))
          | "unwind" :: _, "done" :: mk :: _ ->
            (match !st with
             | None -> ()
             | Some s ->
               (match Hashtbl.find_opt markers mk with
                | None -> diverge "unknown marker" line
                | Some m ->
                  incr unwinds;
                  if int_of_nat m.m_index < List.length (s_used s) - 1 then incr xblock;
                  let (_, out) = do_step s (SUnwind m) in
                  (match out with SDone -> () | SReported -> diverge "model reports an invalid unwind" line | _ -> diverge "unexpected model outcome" line)))
          | "shrink" :: _, _ -> (match !st with None -> () | Some s -> ignore (do_step s SShrink))
          | "mv" :: _, _ -> if calls <> [] then diverge "a move must not touch the upstream source" line
          | "mfa" :: _, "done" :: _ ->
            (* a fresh stack assigned into a moved-from one which is then destroyed: only the fresh stack's block moves *)
            (match calls with
             | [UA (sz, Some a); UF (a', sz')] when a = a' && sz = sz' -> ()
             | _ -> diverge "assigning into a moved-from stack and destroying it must acquire and return exactly the fresh stack's block" line)
          | "destroy" :: _, _ ->
            (match !st with
             | None -> ()
             | Some s -> if model_calls (destroy_calls s) <> calls then diverge "destruction must return cached blocks then used blocks, newest first, each once" line; st := None)
          | _ -> ());
         (match !st, lhs with
          | Some s, op :: _ when op <> "destroy" ->
            (match (try Some (List.assoc "cap" caps) with Not_found -> None) with
             | Some c -> if iz (capacity_left s) <> c then diverge (Printf.sprintf "capacity_left: model %d" (iz (capacity_left s))) line
             | None -> ());
            (match (try Some (List.assoc "next" caps) with Not_found -> None) with
             | Some c -> let m = iz (next_capacity s) in if m >= 0 && m <> c then diverge (Printf.sprintf "next_capacity: model %d" m) line
             | None -> ())
          | _ -> ())
       | _ ->
         (match split_ws line with
          | ("corrupt" | "nofill") :: _ -> diverge "implementation-side oracle" line
          | "end" :: rest ->
            List.iter (fun (k, v) -> if (k = "live_blocks" || k = "errors" || k = "stale_writes") && v <> 0 then diverge ("at exit " ^ k) line) (kv (String.concat " " rest))
          | _ -> ())
     done
   with End_of_file -> ());
  Printf.printf "SUMMARY ops=%d diverged=%d growths=%d unwinds=%d cross_block_unwinds=%d\n" !ops !bad !grows !unwinds !xblock
