(* C16 / ordered list: lock-step replay of the real ordered_free_memory_list against OrderedList (nodes and cursor
   after every operation, outcome class of every double release), and of small_free_memory_list's checks against
   InvalidRelease.s_dealloc on the chunk layout the harness dumps *)
open Model
open Conv

let zi = z_of_int and iz = int_of_z
let kvs (s : string) = List.filter_map (fun t -> match String.index_opt t '=' with
    | Some i -> Some (String.sub t 0 i, String.sub t (i + 1) (String.length t - i - 1)) | None -> None) (split_ws s)

let parse_nodes s = if s = "-" then [] else List.map int_of_string (String.split_on_char ',' s)

let run_ord () =
  let st = ref None and asserts = ref false and dbl = ref false in
  let ops = ref 0 and bad = ref 0 and dbls = ref 0 and lineno = ref 0 in
  let classes = Hashtbl.create 8 in
  let diverge msg line = incr bad; if !bad <= 12 then Printf.printf "DIVERGE line %d: %s :: %s\n" !lineno msg (if String.length line > 300 then String.sub line 0 300 else line) in
  let compare_state (l : olist) caps line =
    let k = kvs caps in
    let nodes = parse_nodes (List.assoc "nodes" k) and c = int_of_string (List.assoc "ldp" k) in
    if List.map iz l.nodes <> nodes then diverge "free-list content differs from the model" line
    else if int_of_nat l.ldp <> c then diverge (Printf.sprintf "last-deallocation cursor differs: model index %d" (int_of_nat l.ldp)) line;
    if List.assoc "adjacent" k <> "1" then diverge "last_dealloc_ is not the successor of last_dealloc_prev_" line in
  (try
     while true do
       let line = input_line stdin in
       incr lineno;
       match String.split_on_char '|' line with
       | [head; mid; caps] when String.length head >= 3 && String.sub head 0 3 = "ord" ->
         let k = kvs mid in
         asserts := (List.assoc "asserts" k = "1"); dbl := (List.assoc "dbl" k = "1");
         let l = o_empty (zi (int_of_string (List.assoc "pb" k))) (zi (int_of_string (List.assoc "pe" k))) (zi (int_of_string (List.assoc "ns" k))) in
         st := Some l; compare_state l caps line
       | [head; caps] ->
         (match !st, String.index_opt head '=' with
          | Some l, Some i ->
            let lhs = split_ws (String.sub head 0 i) and rhs = split_ws (String.sub head (i + 1) (String.length head - i - 1)) in
            let ok l' = st := Some l'; compare_state l' caps line in
            let cls r = match r with Ret _ -> "accepted" | Reported -> "reported" | Unreachable -> "abort" | AssertFail -> "abort" | Crash -> "crash" in
            (match lhs, rhs with
             | "ins" :: off :: size :: _, _ ->
               incr ops;
               (match o_insert !asserts !dbl l (zi (int_of_string off)) (zi (int_of_string size)) with
                | Ret l' -> ok l' | r -> diverge ("model: insert " ^ cls r) line)
             | "a" :: _, "ok" :: p :: _ ->
               incr ops;
               (match o_alloc l with
                | Some (x, l') -> if iz x <> int_of_string p then diverge (Printf.sprintf "model allocates the node at %d" (iz x)) line; ok l'
                | None -> diverge "model: list empty" line)
             | "aa" :: bytes :: _, r :: rest ->
               incr ops;
               (match o_alloc_array l (zi (int_of_string bytes)), r with
                | Some (x, l'), "ok" -> if iz x <> int_of_string (List.hd rest) then diverge (Printf.sprintf "model takes the run at %d" (iz x)) line; ok l'
                | None, "null" -> compare_state l caps line
                | Some (x, _), _ -> diverge (Printf.sprintf "model finds a run at %d" (iz x)) line
                | None, _ -> diverge "model finds no run of that many consecutive nodes" line)
             | "d" :: _, "released" :: p :: bytes :: _ ->
               incr ops;
               (match o_dealloc_array !asserts !dbl l (zi (int_of_string p)) (zi (int_of_string bytes)) with
                | Ret l' -> ok l'
                | r -> diverge ("model: a valid release ends as " ^ cls r) line)
             | "dbl" :: _, c :: p :: _ ->
               incr ops; incr dbls;
               let r = o_dealloc !asserts true l (zi (int_of_string p)) in
               let m = cls r in
               Hashtbl.replace classes c (1 + (try Hashtbl.find classes c with Not_found -> 0));
               if !dbl then (if m <> c then diverge ("model: double release ends as " ^ m) line);
               compare_state l caps line
             | "dbla" :: _, c :: p :: bytes :: _ ->
               (* an array release whose first node is on the free list *)
               incr ops; incr dbls;
               let r = o_dealloc_array !asserts true l (zi (int_of_string p)) (zi (int_of_string bytes)) in
               let m = cls r in
               Hashtbl.replace classes c (1 + (try Hashtbl.find classes c with Not_found -> 0));
               if !dbl then (if m <> c then diverge ("model: double release of an array ends as " ^ m) line);
               compare_state l caps line
             | "q" :: _, _ -> compare_state l caps line
             | _ -> ())
          | _ -> ())
       | _ -> ()
     done
   with End_of_file -> ());
  Printf.printf "SUMMARY ops=%d diverged=%d doubles=%d reported=%d aborted=%d\n" !ops !bad !dbls
    (try Hashtbl.find classes "reported" with Not_found -> 0) (try Hashtbl.find classes "abort" with Not_found -> 0)

let run_small () =
  let ns = ref 8 and dbl = ref false and ptr = ref true in
  let ops = ref 0 and bad = ref 0 and bads = ref 0 and lineno = ref 0 in
  let prev_chunks = ref "-" and prev_dc = ref (-999999) in
  let diverge msg line = incr bad; if !bad <= 12 then Printf.printf "DIVERGE line %d: %s :: %s\n" !lineno msg (if String.length line > 200 then String.sub line 0 200 else line) in
  let parse_chunks s =
    if s = "-" then [] else
      List.map (fun c -> match String.split_on_char ':' c with
          | [m; n; f] -> { c_mem = zi (int_of_string m); c_nodes = zi (int_of_string n); c_free = if f = "-" then [] else List.map (fun x -> zi (int_of_string x)) (String.split_on_char ',' f) }
          | _ -> { c_mem = zi 0; c_nodes = zi 0; c_free = [] }) (String.split_on_char ';' s) in
  (* the whole list (chunk order, free chains, both cursors) carried by SmallList in lock-step *)
  let sm = ref None and smops = ref 0 and base = ref (-1000000) and searches = ref 0 in
  let pos_of_addr cs a = if a = -999999 then 0 else (let rec go i = function [] -> -1 | c :: tl -> if iz c.c_mem - 32 = a then i + 1 else go (i + 1) tl in go 0 cs) in
  let resync caps =
    let k = kvs caps in
    let cs = parse_chunks (try List.assoc "chunks" k with Not_found -> "-") in
    let cur key = (try nat_of_int (max 0 (pos_of_addr cs (int_of_string (List.assoc key k)))) with Not_found -> nat_of_int 0) in
    sm := Some { sm_ns = zi !ns; sm_chunks = cs; sm_ac = cur "ac"; sm_dc = cur "dc" } in
  let compare_sm caps line =
    match !sm with
    | None -> ()
    | Some l ->
      let k = kvs caps in
      let got = parse_chunks (try List.assoc "chunks" k with Not_found -> "-") in
      let flat cs = List.map (fun c -> (iz c.c_mem, iz c.c_nodes, List.map iz c.c_free)) cs in
      let cur key = (try pos_of_addr got (int_of_string (List.assoc key k)) with Not_found -> -2) in
      if flat l.sm_chunks <> flat got then (diverge "SmallList: chunk order / free chains differ from the model" line; resync caps)
      else if List.mem_assoc "ac" k && (cur "ac" <> int_of_nat l.sm_ac || cur "dc" <> int_of_nat l.sm_dc) then
        (diverge (Printf.sprintf "SmallList: cursors differ (model alloc=%d dealloc=%d, list alloc=%d dealloc=%d)" (int_of_nat l.sm_ac) (int_of_nat l.sm_dc) (cur "ac") (cur "dc")) line; resync caps)
      else if (try int_of_string (List.assoc "cap" k) <> iz (sm_capacity l) with Not_found -> false) then diverge "SmallList: capacity() differs from the free nodes of the model" line in
  (try
     while true do
       let line = input_line stdin in
       incr lineno;
       match String.split_on_char '|' line with
       | [head; mid; caps] when String.length head >= 5 && String.sub head 0 5 = "small" ->
         let k = kvs mid in
         ns := int_of_string (List.assoc "ns" k); dbl := (List.assoc "dbl" k = "1"); ptr := (List.assoc "ptr" k = "1");
         sm := Some (sm_empty (zi !ns)); compare_sm caps line;
         base := (try int_of_string (List.assoc "base" k) with Not_found -> -1000000);
         prev_chunks := (try List.assoc "chunks" (kvs caps) with Not_found -> "-");
         prev_dc := (try int_of_string (List.assoc "dc" (kvs caps)) with Not_found -> -999999)
       | [head; caps] ->
         let k = kvs caps in
         let chunks_now = (try List.assoc "chunks" k with Not_found -> "-") in
         (match String.index_opt head '=' with
          | Some i ->
            let lhs = split_ws (String.sub head 0 i) and rhs = split_ws (String.sub head (i + 1) (String.length head - i - 1)) in
            let l = { sl_ns = zi !ns; sl_chunks = parse_chunks !prev_chunks; sl_dc = zi !prev_dc } in
            (match lhs, rhs with
             | "bad" :: _, c :: _ :: p :: _ ->
               incr ops; incr bads;
               let m = (match s_dealloc !ptr !dbl l (zi (int_of_string p)) with SmOk _ -> "accepted" | SmReported -> "reported" | SmAbort -> "abort" | SmCrash -> "crash") in
               if m <> c then diverge ("model: this release is " ^ m) line;
               if chunks_now <> !prev_chunks then diverge "a refused release changed the list" line
             | "d" :: _, "released" :: p :: _ ->
               incr ops;
               (match s_dealloc !ptr !dbl l (zi (int_of_string p)) with
                | SmOk l' ->
                  (* the node is on its chunk's chain afterwards, first *)
                  let exp = List.map (fun c -> (iz c.c_mem, iz c.c_nodes, List.map iz c.c_free)) l'.sl_chunks in
                  let got = List.map (fun c -> (iz c.c_mem, iz c.c_nodes, List.map iz c.c_free)) (parse_chunks chunks_now) in
                  if List.sort compare exp <> List.sort compare got then diverge "chunk free chains differ from the model after a valid release" line
                | _ -> diverge "model: a valid release is refused" line)
             | _ -> ());
            (match !sm, lhs, rhs with
             | Some l, "ins" :: off :: size :: _, _ -> incr smops; sm := Some (sm_insert l (zi (int_of_string off)) (zi (int_of_string size))); compare_sm caps line
             | Some l, "a" :: _, "ok" :: p :: _ ->
               incr smops;
               (match sm_alloc l with
                | Some (x, l') -> if iz x <> int_of_string p then diverge (Printf.sprintf "SmallList: model allocates the node at %d" (iz x)) line; sm := Some l'; compare_sm caps line
                | None -> diverge "SmallList: the model finds no chunk with a free node" line; resync caps)
             | Some l, "d" :: _, "released" :: p :: _ ->
               incr smops; incr searches;
               (* deallocate as the code runs it (chunk search from the cursors, then the checks) and its specification agree *)
               (match sm_deallocate (zi !base) !ptr !dbl l (zi (int_of_string p)), sm_dealloc l (zi (int_of_string p)) with
                | MOk l1, Some l' ->
                  if (List.map (fun c -> (iz c.c_mem, List.map iz c.c_free)) l1.sm_chunks, int_of_nat l1.sm_dc) <> (List.map (fun c -> (iz c.c_mem, List.map iz c.c_free)) l'.sm_chunks, int_of_nat l'.sm_dc)
                  then diverge "SmallList: the chunk search of deallocate ends at a different chunk than the one holding the node" line;
                  sm := Some l'; compare_sm caps line
                | _, Some l' -> diverge "SmallList: the model's deallocate refuses a valid release" line; sm := Some l'; compare_sm caps line
                | _, None -> diverge "SmallList: the released node is in no chunk of the model" line; resync caps)
             | Some l, "bad" :: _, c :: _ :: p :: _ ->
               incr searches;
               let m = (match sm_deallocate (zi !base) !ptr !dbl l (zi (int_of_string p)) with MOk _ -> "accepted" | MReported -> "reported" | MAbort -> "abort" | MCrash -> "crash" | MHang -> "hang") in
               if m <> c then diverge ("SmallList: deallocate as the code runs it ends as " ^ m) line;
               if c = "accepted" then resync caps else compare_sm caps line
             | _ -> ());
            prev_chunks := chunks_now;
            prev_dc := (try int_of_string (List.assoc "dc" k) with Not_found -> -999999)
          | None -> ())
       | _ -> ()
     done
   with End_of_file -> ());
  Printf.printf "SUMMARY ops=%d diverged=%d bad_calls=%d list_steps=%d searches=%d\n" !ops !bad !bads !smops !searches

(* the real free_memory_list in lock-step with UnorderedList: nodes in link order after every operation *)
let run_unord () =
  let st = ref None in
  let ops = ref 0 and bad = ref 0 and lineno = ref 0 and arrays = ref 0 in
  let diverge msg line = incr bad; if !bad <= 12 then Printf.printf "DIVERGE line %d: %s :: %s\n" !lineno msg (if String.length line > 300 then String.sub line 0 300 else line) in
  let compare_state (l : ulist) caps line =
    let k = kvs caps in
    let nodes = parse_nodes (List.assoc "nodes" k) in
    if List.map iz l.u_nodes <> nodes then diverge "free-list content (link order) differs from the model" line
    else if int_of_string (List.assoc "cap" k) <> List.length nodes then diverge "capacity() differs from the number of linked nodes" line in
  (try
     while true do
       let line = input_line stdin in
       incr lineno;
       match String.split_on_char '|' line with
       | [head; mid; caps] when String.length head >= 5 && String.sub head 0 5 = "unord" ->
         let l = u_empty (zi (int_of_string (List.assoc "ns" (kvs mid)))) in st := Some l; compare_state l caps line
       | [head; caps] ->
         (match !st, String.index_opt head '=' with
          | Some l, Some i ->
            let lhs = split_ws (String.sub head 0 i) and rhs = split_ws (String.sub head (i + 1) (String.length head - i - 1)) in
            let ok l' = st := Some l'; compare_state l' caps line in
            (match lhs, rhs with
             | "ins" :: off :: size :: _, _ -> incr ops; ok (u_insert l (zi (int_of_string off)) (zi (int_of_string size)))
             | "a" :: _, "ok" :: p :: _ ->
               incr ops;
               (match u_alloc l with Some (x, l') -> if iz x <> int_of_string p then diverge (Printf.sprintf "model allocates the node at %d" (iz x)) line; ok l' | None -> diverge "model: list empty" line)
             | "aa" :: bytes :: _, r :: rest ->
               incr ops; incr arrays;
               (match u_alloc_array l (zi (int_of_string bytes)), r with
                | Some (x, l'), "ok" -> if iz x <> int_of_string (List.hd rest) then diverge (Printf.sprintf "model takes the run at %d" (iz x)) line; ok l'
                | None, "null" -> compare_state l caps line
                | Some (x, _), _ -> diverge (Printf.sprintf "model finds a run at %d" (iz x)) line
                | None, _ -> diverge "model finds no run of that many consecutive nodes" line)
             | "d" :: _, "released" :: p :: bytes :: _ -> incr ops; ok (u_dealloc_array l (zi (int_of_string p)) (zi (int_of_string bytes)))
             | "q" :: _, _ -> compare_state l caps line
             | _ -> ())
          | _ -> ())
       | _ -> ()
     done
   with End_of_file -> ());
  Printf.printf "SUMMARY ops=%d diverged=%d arrays=%d\n" !ops !bad !arrays
