(* C20: event lists of the object-creating helpers against ExcSafety.create_array *)
open Model
open Conv

let show = function XAlloc -> "A" | XFree -> "F" | XCons i -> "C" ^ string_of_int (int_of_nat i) | XDtor i -> "D" ^ string_of_int (int_of_nat i) | XThrow -> "T"

let run () =
  let total = ref 0 and bad = ref 0 and throws = ref 0 in
  let diverge msg line = incr bad; if !bad <= 12 then Printf.printf "DIVERGE %s :: %s\n" msg line in
  (try
     while true do
       let line = input_line stdin in
       match String.index_opt line '=' with
       | Some i when String.length line > 2 && line.[0] = 'u' ->
         let lhs = split_ws (String.sub line 0 i) in
         let rest = String.sub line (i + 1) (String.length line - i - 1) in
         let evpart = List.hd (String.split_on_char '|' rest) in
         let obs = split_ws evpart in
         (match lhs with
          | "u" :: helper :: leaf :: n :: t :: _ ->
            incr total;
            let n = if List.mem helper ["array"; "anyarray"; "arraynm"; "anyarraynm"] then int_of_string n else 1 in
            let t = int_of_string t in
            let fail = if t >= 0 && t < n then Some (nat_of_int t) else None in
            if fail <> None then incr throws;
            let model = List.map show (create_array (nat_of_int n) fail) in
            let model = if leaf = "up" then model else List.filter (fun e -> e <> "A" && e <> "F") model in
            if model <> obs then diverge (Printf.sprintf "model events [%s]" (String.concat " " model)) line;
            List.iter (fun tok -> match String.split_on_char '=' tok with
                | ["errors"; v] -> if v <> "0" then diverge "memory released with parameters different from the allocation's (or capacity changed)" line
                | ["live"; v] -> if v <> "0" then diverge "memory not released" line
                | ["usable"; v] -> if v <> "1" then diverge "allocator unusable afterwards" line
                | ["leaks"; v] -> if v <> "0" then diverge "leak reported" line
                | _ -> ()) (split_ws (String.concat " " (List.tl (String.split_on_char '|' rest))))
          | _ -> ())
       | _ -> ()
     done
   with End_of_file -> ());
  Printf.printf "SUMMARY total=%d diverged=%d throwing_cases=%d\n" !total !bad !throws
