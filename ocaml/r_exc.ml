(* C20: event lists of the object-creating helpers against ExcSafety.create_array *)
open Model
open Conv

let show = function XAlloc -> "A" | XFree -> "F" | XCons i -> "C" ^ string_of_int (int_of_nat i) | XDtor i -> "D" ^ string_of_int (int_of_nat i) | XThrow -> "T"

let showj = function JxAlloc -> "A" | JxFree -> "F" | JxC i -> "C" ^ string_of_int (int_of_nat i) | JxD i -> "D" ^ string_of_int (int_of_nat i) | JxT -> "T"

let run () =
  let total = ref 0 and bad = ref 0 and throws = ref 0 and joint = ref 0 in
  let diverge msg line = incr bad; if !bad <= 12 then Printf.printf "DIVERGE %s :: %s\n" msg line in
  (try
     while true do
       let line = input_line stdin in
       match String.index_opt line '=' with
       | Some i when String.length line > 2 && line.[0] = 'u' ->
         let lhs = split_ws (String.sub line 0 i) in
         let rest = String.sub line (i + 1) (String.length line - i - 1) in
         let evpart = List.hd (String.split_on_char '|' rest) in
         let obs = split_ws evpart in
         (match lhs with
          | "u" :: helper :: leaf :: n :: t :: _ ->
            incr total;
            let n = if List.mem helper ["array"; "anyarray"; "arraynm"; "anyarraynm"] then int_of_string n else 1 in
            let t = int_of_string t in
            let fail = if t >= 0 && t < n then Some (nat_of_int t) else None in
            if fail <> None then incr throws;
            let model = List.map show (create_array (nat_of_int n) fail) in
            let model = if leaf = "up" then model else List.filter (fun e -> e <> "A" && e <> "F") model in
            if model <> obs then diverge (Printf.sprintf "model events [%s]" (String.concat " " model)) line;
            List.iter (fun tok -> match String.split_on_char '=' tok with
                | ["errors"; v] -> if v <> "0" then diverge "memory released with parameters different from the allocation's (or capacity changed)" line
                | ["live"; v] -> if v <> "0" then diverge "memory not released" line
                | ["usable"; v] -> if v <> "1" then diverge "allocator unusable afterwards" line
                | ["leaks"; v] -> if v <> "0" then diverge "leak reported" line
                | _ -> ()) (split_ws (String.concat " " (List.tl (String.split_on_char '|' rest))))
          | _ -> ())
       | Some i when String.length line > 2 && line.[0] = 'j' && line.[1] = ' ' ->
         (* joint helpers: j <form> <cap> <nc> <na> <nb> <throw_at> <post> ... = ... ev=<events> ... against JointExc.jx_case *)
         let lhs = split_ws (String.sub line 0 i) in
         let rest = String.sub line (i + 1) (String.length line - i - 1) in
         (match lhs with
          | "j" :: form :: _ :: _ :: na :: _ :: t :: post :: _ when form <> "ilist" ->
            let ev = List.fold_left (fun acc tok -> if String.length tok > 3 && String.sub tok 0 3 = "ev=" then Some (String.sub tok 3 (String.length tok - 3)) else acc) None (split_ws rest) in
            (match ev with
             | Some e ->
               incr joint;
               let n = int_of_string na and t = int_of_string t in
               let fail = if t >= 0 then Some (nat_of_int t) else None in
               let p = if post = "clone" || post = "move" then PCopy else PNone in
               let model = String.concat "," (List.map showj (jx_case (nat_of_int n) fail p)) in
               if t >= 0 && t < (if p = PCopy then 2 * n else n) then incr throws;
               if model <> e then diverge (Printf.sprintf "model events [%s]" model) line
             | None -> ())
          | _ -> ())
       | _ -> ()
     done
   with End_of_file -> ());
  Printf.printf "SUMMARY total=%d diverged=%d throwing_cases=%d joint_event_lists=%d\n" !total !bad !throws !joint
