(* replay of the arithmetic differential log: "<fn> <hex args> = <hex result>" *)
open Model
open Conv

let buckets (a : n list) : n option =
  match a with
  | [lt; pol; _maxn; s] ->
    let min_elem = if int_of_n lt = 2 then n_of_int 1 else n_of_int 8 in
    Some (if int_of_n pol = 0 then identity_bucket_node_size min_elem s else log2_bucket_node_size min_elem s)
  | _ -> None

let consts (a : n list) : n option =
  match a with
  | [i] -> (match int_of_n i with
      | 0 -> Some max_alignment | 1 -> Some chunk_memory_offset | 2 -> Some chunk_max_nodes
      | 3 -> Some free_memory_list_min_element_size | 4 -> Some ordered_free_memory_list_min_element_size
      | _ -> None)
  | _ -> None

let run () =
  let total = ref 0 and bad = ref 0 and unknown = ref 0 in
  (try
     while true do
       let line = input_line stdin in
       match split_ws line with
       | [] -> ()
       | fn :: rest ->
         let rec cut acc = function
           | "=" :: [r] -> Some (List.rev acc, r)
           | x :: tl -> cut (x :: acc) tl
           | [] -> None in
         (match cut [] rest with
          | None -> ()
          | Some (args, r) ->
            let a = List.map n_of_hex args in
            let m = if fn = "bucket_max" then (match a with [lt; pol; mx; _] -> buckets [lt; pol; mx; mx] | _ -> None) else if fn = "bucket" || fn = "bucket_moved" || fn = "bucket_assigned" || fn = "bucket_static" then buckets a else if fn = "const" then consts a else Arith_tbl.call fn a in
            incr total;
            (match m with
             | None -> incr unknown; Printf.printf "UNKNOWN %s\n" line
             | Some v ->
               let hv = hex_of_n v in
               if hv <> String.lowercase_ascii r then begin
                 incr bad;
                 if !bad <= 50 then Printf.printf "MISMATCH %s model=%s\n" line hv
               end))
     done
   with End_of_file -> ());
  Printf.printf "SUMMARY total=%d mismatches=%d unknown=%d\n" !total !bad !unknown
