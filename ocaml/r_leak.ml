(* C15: leak reports of pool / collection / stack logs against Leak.lrun *)
open Model
open Conv

let parse_list (s : string) : int list =
  (* "[a,b,c]" *)
  let s = String.trim s in
  if String.length s <= 2 then [] else
    List.map int_of_string (String.split_on_char ',' (String.sub s 1 (String.length s - 2)))

let run () =
  let ops = ref [] in
  let handles = Hashtbl.create 64 in
  let bad = ref 0 and nops = ref 0 and observed = ref [] and seen_destroy = ref false in
  let diverge msg line = incr bad; if !bad <= 12 then Printf.printf "DIVERGE %s :: %s\n" msg line in
  let zi = z_of_int and iz = int_of_z in
  let get_after key toks = List.fold_left (fun acc t ->
      let kl = String.length key in
      if String.length t > kl && String.sub t 0 kl = key then Some (String.sub t kl (String.length t - kl)) else acc) None toks in
  (try
     while true do
       let line = input_line stdin in
       match String.split_on_char '|' line with
       | head :: rest ->
         let (lhs, rhs) = match String.index_opt head '=' with
           | Some i -> (split_ws (String.sub head 0 i), split_ws (String.sub head (i + 1) (String.length head - i - 1)))
           | None -> (split_ws head, []) in
         (match lhs, rhs with
          | ("an" | "aa") :: args, "ok" :: _ :: h :: _ ->
            incr nops;
            let bytes = (match lhs with "an" :: sz :: _ -> int_of_string sz | "aa" :: c :: sz :: _ -> int_of_string c * int_of_string sz | _ -> 0) in
            ignore args; Hashtbl.replace handles h bytes; ops := LAlloc (zi bytes) :: !ops
          | ("dn" | "da") :: h :: _, "true" :: _ ->
            incr nops;
            (match Hashtbl.find_opt handles ("h" ^ h) with Some b -> ops := LDealloc (zi b) :: !ops | None -> diverge "release of unknown handle" line)
          | "mv" :: _, _ -> incr nops; ops := LMoveConstruct :: !ops
          | "ma" :: w :: _, rhs -> incr nops; ops := LMoveAssignOnto (zi (if w = "used" && not (List.mem "held=0" rhs) then 1 else 0)) :: !ops
          | "destroy" :: _, _ ->
            seen_destroy := true;
            let all = String.concat " " rest in
            (match get_after "amounts=" (split_ws all) with
             | Some l -> observed := parse_list l
             | None -> diverge "no leak amounts on the destroy line" line)
          | _ -> ())
       | _ -> ()
     done
   with End_of_file -> ());
  if !seen_destroy then begin
    let model = List.map iz (l_reports (lrun (List.rev (LDestroy :: !ops)))) in
    if model <> !observed then
      diverge (Printf.sprintf "leak handler calls: model [%s] observed [%s]" (String.concat "," (List.map string_of_int model)) (String.concat "," (List.map string_of_int !observed))) "destroy"
  end;
  Printf.printf "SUMMARY ops=%d diverged=%d reports=%d\n" !nops !bad (List.length !observed)

(* process-wide checker of the stateless low-level allocators: one line per child process
   "g <fence_on 0|1> <nalloc> <nrel> <size> observed=[..]"; the reports must be those of Leak.gl_run *)
let run_global () =
  let bad = ref 0 and n = ref 0 in
  (try
     while true do
       let line = input_line stdin in
       match split_ws line with
       | "g" :: fence :: nalloc :: nrel :: size :: obs :: _ ->
         incr n;
         let fence = fence = "1" and nalloc = int_of_string nalloc and nrel = int_of_string nrel and size = int_of_string size in
         let observed = parse_list (String.sub obs 9 (String.length obs - 9)) in
         let act i = ll_actual fence (z_of_int 16) (z_of_int (size + i)) in
         let ops = [GCounterCtor; GCounterCtor]
                   @ List.init nalloc (fun i -> GAllocd (act i))
                   @ List.init (min nrel nalloc) (fun i -> GDeallocd (act i))
                   @ [GCounterDtor; GCounterDtor] in
         let model = List.map int_of_z (gl_run ops).g_reports in
         if model <> observed then (incr bad; Printf.printf "DIVERGE model reports [%s] :: %s\n" (String.concat "," (List.map string_of_int model)) line)
       | _ -> ()
     done
   with End_of_file -> ());
  Printf.printf "SUMMARY processes=%d diverged=%d\n" !n !bad
