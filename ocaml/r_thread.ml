(* C13: event trace of real threads validated as a run of the interleaving model Threading.cstep *)
open Model
open Conv

let run () =
  let progs = Hashtbl.create 8 in
  let bad = ref 0 and steps = ref 0 in
  let diverge msg line = incr bad; if !bad <= 12 then Printf.printf "DIVERGE %s :: %s\n" msg line in
  let events = ref [] in
  (try
     while true do
       let line = input_line stdin in
       match split_ws line with
       | "prog" :: t :: bl -> Hashtbl.replace progs (int_of_string t) (List.map (fun b -> BLocked (nat_of_int (int_of_string b))) bl)
       | "events" :: evs -> events := evs
       | "result" :: kvs ->
         List.iter (fun kv -> match String.split_on_char '=' kv with
             | [("overlap" | "nolock" | "bad_unlock" | "stateless_locks") as k; v] -> if v <> "0" then diverge (k ^ " counter non-zero") (String.sub line 0 (min 160 (String.length line)))
             | ["locks"; v] -> (match List.find_opt (fun x -> String.length x > 8 && String.sub x 0 8 = "unlocks=") kvs with
                 | Some u -> if String.sub u 8 (String.length u - 8) <> v then diverge "lock/unlock counts differ" (String.sub line 0 (min 160 (String.length line))) | None -> ())
             | _ -> ()) kvs
       | "facts" :: kvs ->
         List.iter (fun kv -> match String.split_on_char '=' kv with
             | ["stateful_mutex"; v] | ["stateless_nomutex"; v] | ["stateless_threadsafe"; v] -> if v <> "1" then diverge "mutex selection" line
             | ["stateful_threadsafe"; v] -> if v <> "0" then diverge "mutex selection" line
             | _ -> ()) kvs
       | _ -> ()
     done
   with End_of_file -> ());
  let s = ref (start (fun t -> match Hashtbl.find_opt progs (int_of_nat t) with Some p -> p | None -> [])) in
  List.iter (fun e ->
      let n = String.length e in
      let tid = int_of_string (String.sub e 0 (n - 1)) and kind = e.[n - 1] in
      let t = nat_of_int tid in
      let st = threads !s t in
      let expected = (match st with
          | Idle (BLocked _ :: _) -> 'L'
          | Holding (O, _) -> 'U'
          | Holding (S _, _) -> 'E'
          | Inside (_, _) -> 'X'
          | _ -> '?') in
      incr steps;
      (* a proxy / lock taken for zero passes unlocks right away; the model orders enter before unlock when passes remain *)
      if expected <> kind then diverge (Printf.sprintf "event %s: the model expects %c for thread %d" e expected tid) "trace"
      else (match cstep !s t with
          | Some s' -> s := s'
          | None -> diverge (Printf.sprintf "event %s is not enabled in the model (mutex already owned)" e) "trace")) !events;
  Printf.printf "SUMMARY steps=%d diverged=%d\n" !steps !bad
