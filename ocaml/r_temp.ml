(* C14: the trace of the scheduled temporary-stack harness must be a run of TempList.tstep (one model event per
   shared-memory step), with the same stack held by every thread and the same in_use flags after every step *)
open Model
open Conv

let kvs (s : string) = List.filter_map (fun t -> match String.index_opt t '=' with
    | Some i -> Some (String.sub t 0 i, String.sub t (i + 1) (String.length t - i - 1)) | None -> None) (split_ws s)

let run cfgname =
  let cfg = (match cfgname with
      | "old" -> { reset_ts = false; detect_adopt = false; always_destroy = false }
      | _ -> fixed_cfg) in
  let g = ref init_gst in
  let steps = ref 0 and bad = ref 0 and events = ref 0 and lineno = ref 0 and adopted = ref 0 and created = ref 0 in
  let leak = ref false and ended = ref false in
  let diverge msg line = incr bad; if !bad <= 12 then Printf.printf "DIVERGE line %d: %s :: %s\n" !lineno msg line in
  (* model stack id -> observed stack id *)
  let map = Hashtbl.create 8 in
  let ev e line = incr events; (match tstep cfg !g e with Some g' -> g := g' | None -> diverge "model: event not enabled" line) in
  let thr t = !g.tthreads (nat_of_int t) in
  let check_obs line obs_t obs_u =
    (* threads: the stack the worker saw last is the one the model says it holds (or, after an initializer's destruction, held) *)
    List.iter (fun (k, v) ->
        if String.length k > 1 && k.[0] = 'T' then begin
          let t = int_of_string (String.sub k 1 (String.length k - 1)) and o = int_of_string v in
          let x = thr t in
          (match x.t_ts with
           | Some s when x.t_live ->
             let s = int_of_nat s in
             (match Hashtbl.find_opt map s with
              | Some o' -> if o >= 0 && o <> o' then diverge (Printf.sprintf "thread %d holds stack %d, the model says stack %d" t o o') line
              | None -> if o >= 0 then Hashtbl.replace map s o)
           | _ -> ())
        end) obs_t;
    List.iter (fun (k, v) ->
        if String.length k > 1 && k.[0] = 'U' then begin
          let o = int_of_string (String.sub k 1 (String.length k - 1)) in
          (* find the model stack mapped to o *)
          Hashtbl.iter (fun s o' -> if o' = o then begin
              let m = !g.in_use (nat_of_int s) in
              if m <> (v = "1") then diverge (Printf.sprintf "in_use of stack %d is %s, the model says %b" o v m) line end) map
        end) obs_u;
    if shared !g then diverge "model: two live threads hold the same stack" line in
  (try
     while true do
       let line = input_line stdin in
       incr lineno;
       if String.length line >= 4 && String.sub line 0 4 = "LEAK" then leak := true
       else
       match String.split_on_char '|' line with
       | head :: rest ->
         let toks = split_ws head in
         (match toks with
          | "main" :: uses :: _ ->
            ev (EStart (nat_of_int 0)) line;
            if uses = "1" then begin ev (EGet (nat_of_int 0)) line; ev (EScan (nat_of_int 0)) line; ev (EStore (nat_of_int 0)) line;
              (match rest with m :: _ -> (match kvs m with ("M", v) :: _ -> Hashtbl.replace map 0 (int_of_string v) | _ -> ()) | _ -> ()) end
          | "S" :: t :: from :: to_ :: action :: _ ->
            incr steps;
            let t = int_of_string t and from = int_of_string from and to_ = int_of_string to_ in
            let tn = nat_of_int t in
            (* a thread appears in the model the first time it is scheduled *)
            if int_of_nat !g.nthreads <= t then begin
              for k = int_of_nat !g.nthreads to t do ev (EStart (nat_of_int k)) line done end;
            let x = thr t in
            (match from with
             | 1 -> ev (EGet tn) line
             | 2 -> ev (EScan tn) line; (match (thr t).t_hold with Some _ -> incr adopted; ev (EStore tn) line | None -> ())
             | 3 -> ()
             | 4 -> ev (EScan tn) line; incr created; ev (EStore tn) line
             | 6 -> if action = "exit" then ev (EExit tn) line else ev (EInitDtor tn) line
             | 0 ->
               if action = "exit" && to_ = 9 then ev (EExit tn) line
               else if action = "exit" && to_ = 6 then ()
               else ()
             | _ -> ());
            ignore x;
            (* where the thread parked must be where the model's thread is *)
            let y = thr t in
            (match to_ with
             | 1 -> if y.t_ts <> None then diverge "the thread looks for a stack although the model says it has one" line
             | 2 -> (match y.t_scan with Some (_ :: _) -> () | _ -> diverge "model: no node left to look at (or no walk in progress)" line)
             | 3 -> (match y.t_scan with Some [] -> () | _ -> diverge "model: the walk is not exhausted, no new stack is due" line)
             | 6 -> if y.t_ts = None then diverge "model: the thread has no stack to clear" line
             | 9 -> if y.t_live then diverge "model: thread still alive" line
             | _ -> ());
            if to_ = 0 && (action = "get" || action = "init") && y.t_ts = None then diverge "model: the thread has no stack after get_temporary_stack()" line;
            (match rest with
             | [ts; us] -> check_obs line (kvs ts) (kvs us)
             | _ -> ())
          | "end" :: _ -> ended := true
          | _ -> ())
       | _ -> ()
     done
   with End_of_file -> ());
  if !ended then begin
    (* program exit in the main thread *)
    (match tstep cfg !g (EProgramExit (nat_of_int 0)) with
     | Some g' -> g := g'
     | None -> ());
    let stacks = int_of_nat !g.nstacks in
    if stacks > 0 && !g.freed && !leak then ()
    else if stacks > 0 && !g.freed && !leak = false then ()
    else if stacks > 0 && !g.freed = false && not !leak then diverge "model: the list is not destroyed at exit, yet no leak was reported" "end"
    else if stacks > 0 && !g.freed && !leak then diverge "model: everything is freed at exit, the implementation reported a leak" "end"
  end;
  if !ended && int_of_nat !g.nstacks > 0 && !g.freed && !leak then (incr bad; Printf.printf "DIVERGE end: model: everything is freed at program exit, the implementation reported a leak\n");
  if stranded !g then (incr bad; Printf.printf "DIVERGE end: model: a stack is marked in use although no live thread holds it\n");
  Printf.printf "SUMMARY steps=%d events=%d diverged=%d adopted=%d created=%d stacks=%d leak=%d\n" !steps !events !bad !adopted !created (int_of_nat !g.nstacks) (if !leak then 1 else 0)
