(* C17: fence reports of the low-level allocators against Debug.lowlevel_cycle *)
open Model
open Conv

let run () =
  let total = ref 0 and bad = ref 0 and reported = ref 0 and clean = ref 0 in
  let diverge msg line = incr bad; if !bad <= 12 then Printf.printf "DIVERGE %s :: %s\n" msg line in
  let zi = z_of_int and iz = int_of_z in
  (try
     while true do
       let line = input_line stdin in
       match String.index_opt line '=' with
       | Some i when String.length line > 2 && line.[0] = 'c' ->
         let lhs = split_ws (String.sub line 0 i) and rhs = split_ws (String.sub line (i + 1) (String.length line - i - 1)) in
         (match lhs with
          | "c" :: _ :: size :: _ :: n :: ws ->
            incr total;
            let size = int_of_string size and n = int_of_string n in
            let rec pairs k l = if k = 0 then [] else match l with o :: v :: tl -> (int_of_string o, int_of_string v) :: pairs (k - 1) tl | _ -> [] in
            let ws = pairs n ws in
            let get k = List.fold_left (fun acc t -> match String.split_on_char '=' t with [a; b] when a = k -> Some b | _ -> acc) None rhs in
            let fence = int_of_string (match get "fence" with Some f -> f | None -> "0") in
            let ncalls = int_of_string (match get "calls" with Some f -> f | None -> "0") in
            let rec after = function t :: tl when String.length t > 6 && String.sub t 0 6 = "calls=" -> tl | _ :: tl -> after tl | [] -> [] in
            let rec take k l = if k = 0 then [] else match l with x :: tl -> int_of_string x :: take (k - 1) tl | [] -> [] in
            let calls = take ncalls (after rhs) in
            (* model: raw block at 1000000, node at raw + fence; memory outside is arbitrary (0) *)
            let raw = 1000000 in
            let node = raw + fence in
            let m0 = (fun _ -> zi 0) in
            let mc = lowlevel_cycle m0 (zi raw) (zi size) (zi fence) (List.map (fun (o, v) -> (zi (node + o), zi v)) ws) in
            let mcalls = List.map (fun ((_, _), d) -> iz d - node) mc in
            if mcalls <> calls then diverge (Printf.sprintf "model reports [%s]" (String.concat " " (List.map string_of_int mcalls))) line;
            if calls = [] then incr clean else incr reported;
            if get "pre" <> Some "1" then diverge "fresh node does not carry the new-memory pattern between intact fences (or is misaligned)" line;
            if get "badargs" <> Some "0" then diverge "handler received a different node address or size" line
          | _ -> ())
       | _ -> ()
     done
   with End_of_file -> ());
  Printf.printf "SUMMARY total=%d diverged=%d reported=%d clean=%d\n" !total !bad !reported !clean

(* C03: new_allocator with a refusing operator new and numbered new_handlers, against NewLoop.ll_allocate.
   input lines: "n <first> <table> = <outcome> calls=<list> oom=<k> ..." *)
let run_newloop () =
  let n = ref 0 and bad = ref 0 in
  (try
     while true do
       let line = input_line stdin in
       match split_ws line with
       | "n" :: first :: table :: "=" :: outcome :: rest ->
         incr n;
         let tbl = Array.of_list (String.split_on_char ',' table) in
         let beh h = let h = int_of_nat h in
           if h >= Array.length tbl then HbThrow else
             (match tbl.(h) with
              | "u" -> HbUninstall | "f" -> HbFree | "t" | "" -> HbThrow
              | s when s.[0] = 'i' -> HbInstall (nat_of_int (int_of_string (String.sub s 1 (String.length s - 1))))
              | _ -> HbThrow) in
         let first = int_of_string first in
         let (o, calls) = ll_allocate (nat_of_int 40) beh false (if first >= 0 then Some (nat_of_int first) else None) in
         let mo = (match o with LPtr -> "ok" | LThrowOom _ -> "oom" | LHang -> "hang") in
         let mc = if calls = [] then "-" else String.concat "," (List.map (fun x -> string_of_int (int_of_nat x)) calls) in
         let oc = List.fold_left (fun acc t -> if String.length t > 6 && String.sub t 0 6 = "calls=" then String.sub t 6 (String.length t - 6) else acc) "?" rest in
         if mo <> outcome || mc <> oc then (incr bad; Printf.printf "DIVERGE model: %s after calling handlers %s :: %s\n" mo mc line)
       | _ -> ()
     done
   with End_of_file -> ());
  Printf.printf "SUMMARY newloop_cases=%d diverged=%d\n" !n !bad
