(* lock-step replay of an iteration_allocator log against Iteration.it_step *)
open Model
open Conv

let run fence fill =
  let st = ref None in
  let n_regions = ref 0 in
  let ops = ref 0 and bad = ref 0 and lineno = ref 0 in
  let diverge msg line = incr bad; if !bad <= 20 then Printf.printf "DIVERGE line %d: %s :: %s\n" !lineno msg line in
  let zf = z_of_int fence in
  (try
     while true do
       let line = input_line stdin in
       incr lineno;
       let toks = split_ws (List.hd (String.split_on_char '|' line)) in
       (match toks with
        | "init" :: n :: size :: "=" :: [base] ->
          n_regions := int_of_string n;
          st := Some (it_init (z_of_int (int_of_string base)) (z_of_int (int_of_string size)) (nat_of_int !n_regions))
        | "init" :: _ -> Printf.printf "NOTE init failed: %s\n" line
        | (("a" | "t") as op) :: size :: al :: "=" :: res ->
          (match !st with
           | None -> ()
           | Some s ->
             incr ops;
             let (s', out) = it_step zf fill s (IAlloc (op = "a", z_of_int (int_of_string size), z_of_int (int_of_string al))) in
             st := Some s';
             (match out, res with
              | IOk p, ["ok"; off] -> if int_of_z p <> int_of_string off then diverge (Printf.sprintf "model address %d" (int_of_z p)) line
              | INull, ["null"] -> ()
              | IThrow, "throw" :: "oofm" :: h :: _ -> if h <> "h=1" then diverge "out_of_memory handler must be called exactly once before the throw" line
              | IOk p, _ -> diverge (Printf.sprintf "model serves the request at %d" (int_of_z p)) line
              | INull, _ -> diverge "model returns null" line
              | IThrow, _ -> diverge "model throws out_of_fixed_memory" line
              | _ -> diverge "unexpected model outcome" line))
        | "n" :: "=" :: cur :: _ ->
          (match !st with
           | None -> ()
           | Some s ->
             incr ops;
             let (s', out) = it_step zf fill s INext in
             st := Some s';
             (match out with
              | INextOut c -> if int_of_nat c <> int_of_string cur then diverge "current iteration differs" line
              | ICrash -> diverge "model predicts a crash (negative fill length)" line
              | _ -> diverge "unexpected model outcome" line))
        | "c" :: "=" :: caps ->
          (match !st with
           | None -> ()
           | Some s ->
             incr ops;
             List.iteri (fun i c ->
                 let m = int_of_z (it_capacity_left s (nat_of_int i)) in
                 if m <> int_of_string c then diverge (Printf.sprintf "capacity_left(%d): model %d" i m) line) caps)
        | ("corrupt" | "nofill") :: _ -> diverge "implementation-side oracle" line
        | "end" :: rest ->
          List.iter (fun kv -> match String.split_on_char '=' kv with
              | ["live_blocks"; v] -> if v <> "0" then diverge "upstream blocks not returned" line
              | ["errors"; v] -> if v <> "0" then diverge "upstream release mismatch" line
              | ["stale_writes"; v] -> if v <> "0" then diverge "write into memory already returned upstream" line
              | _ -> ()) rest
        | _ -> ())
     done
   with End_of_file -> ());
  Printf.printf "SUMMARY ops=%d diverged=%d\n" !ops !bad
