(* lock-step replay of a memory_arena log against Arena.astep *)
open Model
open Conv
open R_stack

let run () =
  let st = ref None in
  let ops = ref 0 and bad = ref 0 and lineno = ref 0 and fails = ref 0 and cachehits = ref 0 in
  let srck = ref "" and init_args = ref None in
  let diverge msg line = incr bad; if !bad <= 12 then Printf.printf "DIVERGE line %d: %s :: %s\n" !lineno msg line in
  (try
     while true do
       let line = input_line stdin in
       incr lineno;
       match String.split_on_char '|' line with
       | [head; evs; caps] ->
         let (lhs, rhs) = match String.index_opt head '=' with
           | Some i -> (split_ws (String.sub head 0 i), split_ws (String.sub head (i + 1) (String.length head - i - 1)))
           | None -> (split_ws head, []) in
         let (calls, uerrs) = parse_calls evs in
         if uerrs <> [] then diverge ("upstream-side error " ^ String.concat " " uerrs) line;
         let caps = kv caps in
         let answer = List.fold_left (fun acc c -> match c with UA (_, a) -> (match a with Some x -> Some (zi x) | None -> None) | _ -> acc) None calls in
         let has_ua = List.exists (function UA _ -> true | _ -> false) calls in
         let answer = if has_ua then answer else Some (zi 0) in
         let do_step a o =
           incr ops;
           let ((a', out), mcalls) = astep a o answer in
           st := Some a';
           if model_calls mcalls <> calls then diverge "upstream calls differ from the model's" line;
           out in
         (match lhs, rhs with
          | "arena" :: cached :: src :: bs :: _, "ok" :: _ ->
            srck := src;
            let k = (match src with "grow" -> AGrow | "fixed" -> AFixed | _ -> AConst) in
            st := Some (ar_init k (cached = "cached") (zi (int_of_string bs)));
            init_args := Some (k, (cached = "cached"), zi (int_of_string bs));
            if calls <> [] then diverge "constructor must not allocate" line
          | "arena" :: _, _ -> Printf.printf "NOTE constructor failed: %s\n" line
          | "ab" :: _, _ ->
            (match !st with
             | None -> ()
             | Some a ->
               if ar_cache a <> [] then incr cachehits;
               (match do_step a ABlock, rhs with
                | ABlk (m, sz), "ok" :: off :: size :: _ ->
                  if iz m <> int_of_string off || iz sz <> int_of_string size then diverge (Printf.sprintf "model block (%d,%d)" (iz m) (iz sz)) line
                | AThrowUpstream, "throw" :: cls :: _ ->
                  incr fails;
                  let expect = if !srck = "static" || !srck = "virtual" then "oofm" else "bad_alloc" in
                  if cls <> expect then diverge ("exception class, expected " ^ expect) line
                | AThrowFixed, "throw" :: "oofm" :: rest -> incr fails; if (try List.assoc "oom" (kv (String.concat " " rest)) with Not_found -> 0) <> 1 then diverge "out_of_memory handler not called exactly once" line
                | ABlk (m, _), _ -> diverge (Printf.sprintf "model returns the block at %d" (iz m)) line
                | AThrowUpstream, _ -> diverge "model propagates the source's failure" line
                | AThrowFixed, _ -> diverge "model throws out_of_fixed_memory" line
                | _ -> diverge "unexpected model outcome" line))
          | "db" :: _, "done" :: _ -> (match !st with None -> () | Some a -> (match do_step a ADealloc with ADone -> () | _ -> diverge "unexpected model outcome" line))
          | "shrink" :: _, _ -> (match !st with None -> () | Some a -> ignore (do_step a AShrink))
          | "owns" :: off :: _, r :: _ ->
            (match !st with None -> () | Some a -> incr ops; if ar_owns a (zi (int_of_string off)) <> (r = "true") then diverge "owns() differs from the model" line)
          | "mv" :: _, _ -> if calls <> [] then diverge "a move must not touch the block source" line
          | "mfa" :: _, "done" :: _ ->
            (match calls with
             | [UA (sz, Some a); UF (a', sz')] when a = a' && sz = sz' -> ()
             | _ -> diverge "assigning into a moved-from arena and destroying it must acquire and return exactly the fresh arena's block" line)
          | "mfb" :: _, "done" :: _ ->
            (* move assignment from a busy arena: the model builds the other arena from the same upstream answers, the old
               content of the target is returned as on destruction, and the target continues as the other arena *)
            (match !st, !init_args with
             | Some a, Some (k, cached, bs) ->
               incr ops;
               let answers = ref (List.filter_map (function UA (_, Some x) -> Some (zi x) | _ -> None) calls) in
               let next_answer () = match !answers with x :: tl -> answers := tl; Some x | [] -> None in
               let f = ref (ar_init k cached bs) and mc = ref [] in
               let stepf o ans = let ((f', _), c) = astep !f o ans in f := f'; mc := !mc @ c in
               stepf ABlock (next_answer ());
               if !srck = "grow" then (stepf ABlock (next_answer ()); stepf ADealloc (Some (zi 0)));
               if model_calls (!mc @ ar_destroy_calls a) <> calls then diverge "move assignment from a busy arena: the other arena's blocks are acquired, then the target's old blocks returned (cached first, then used, newest first), nothing else" line;
               st := Some !f
             | _ -> ())
          | "destroy" :: _, _ ->
            (match !st with
             | None -> ()
             | Some a -> if model_calls (ar_destroy_calls a) <> calls then diverge "destruction must return cached blocks then used blocks, newest first, each once" line; st := None)
          | _ -> ());
         (match !st, lhs with
          | Some a, op :: _ when op <> "destroy" ->
            (match (try Some (List.assoc "size" caps) with Not_found -> None) with
             | Some c -> if List.length (ar_used a) <> c then diverge "size() differs" line | None -> ());
            (match (try Some (List.assoc "cache" caps) with Not_found -> None) with
             | Some c -> if List.length (ar_cache a) <> c then diverge "cache_size() differs" line | None -> ());
            (match (try Some (List.assoc "next" caps) with Not_found -> None) with
             | Some c -> let m = iz (ar_next_block_size a) in if m >= 0 && m <> c then diverge (Printf.sprintf "next_block_size: model %d" m) line
             | None -> ())
          | _ -> ())
       | _ ->
         (match split_ws line with
          | "mismatch" :: _ -> diverge "current_block differs from the block just returned" line
          | "end" :: rest ->
            List.iter (fun (k, v) -> if (k = "live_blocks" || k = "errors" || k = "stale_writes") && v <> 0 then diverge ("at exit " ^ k) line) (kv (String.concat " " rest))
          | _ -> ())
     done
   with End_of_file -> ());
  Printf.printf "SUMMARY ops=%d diverged=%d failures=%d cache_hits=%d\n" !ops !bad !fails !cachehits
