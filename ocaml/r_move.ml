(* C12: lock-step of the ownership model Move.mstep with the upstream log of the move harness *)
open Model
open Conv

let zi = z_of_int and iz = int_of_z

let parse_up (s : string) : int list * int list * string list =
  let toks = Array.of_list (split_ws s) in
  let n = Array.length toks in
  let ups = ref [] and downs = ref [] and errs = ref [] in
  let i = ref 0 in
  while !i < n do
    (match toks.(!i) with
     | "U+" -> if !i + 3 < n && toks.(!i + 3) <> "fail" then ups := int_of_string toks.(!i + 3) :: !ups; i := !i + 4
     | "U-" -> if !i + 3 < n then downs := int_of_string toks.(!i + 3) :: !downs; i := !i + 4
     | t -> errs := t :: !errs; incr i)
  done;
  (List.rev !ups, List.rev !downs, List.rev !errs)

let run () =
  let w = ref [] and source = ref false in
  let tw = ref tw_empty and tracked = ref false and tsteps = ref 0 in   (* deeply tracked types: DeepTracker.tstep in parallel *)
  let ops = ref 0 and bad = ref 0 and moves = ref 0 and assigns = ref 0 and swaps = ref 0 and dels = ref 0 and lineno = ref 0 in
  let diverge msg line = incr bad; if !bad <= 12 then Printf.printf "DIVERGE line %d: %s :: %s\n" !lineno msg line in
  let nat k = nat_of_int (int_of_string k) in
  let same_set a b = List.sort compare a = List.sort compare b in
  (try
     while true do
       let line = input_line stdin in
       incr lineno;
       match String.split_on_char '|' line with
       | [head; evs; st] ->
         let (lhs, rhs) = match String.index_opt head '=' with
           | Some i -> (split_ws (String.sub head 0 i), split_ws (String.sub head (i + 1) (String.length head - i - 1)))
           | None -> (split_ws head, []) in
         let (ups, downs, errs) = parse_up evs in
         if errs <> [] then diverge ("upstream-side error " ^ String.concat " " errs) line;
         let step o what =
           incr ops;
           (match mstep !w o with
            | Some (w', r) ->
              w := w';
              if not !source && not (same_set (List.map iz r) downs) then
                diverge (Printf.sprintf "%s: the model returns %d block(s) upstream [%s], the implementation returned [%s]" what (List.length r)
                           (String.concat "," (List.map (fun x -> string_of_int (iz x)) r)) (String.concat "," (List.map string_of_int downs))) line
            | None -> diverge ("model: operation not enabled (" ^ what ^ ")") line) in
         let tstep_ o what = if !tracked then (incr tsteps; match dt_step true !tw o with Some w' -> tw := w' | None -> diverge ("deep-tracker model: operation not enabled (" ^ what ^ ")") line) in
         (match lhs, rhs with
          | "new" :: k :: _, "made" :: _ -> tstep_ (TNew (nat k)) "construction"
          | "mc" :: i :: j :: _, "moved" :: _ -> tstep_ (TMoveCons (nat i, nat j)) "move construction"
          | "ma" :: i :: j :: _, "assigned" :: _ -> tstep_ (TMoveAssign (nat i, nat j)) "move assignment"
          | "sw" :: i :: j :: _, "swapped" :: _ -> tstep_ (TSwap (nat i, nat j, nat_of_int 4)) "swap"
          | "del" :: k :: _, "destroyed" :: _ -> tstep_ (TDel (nat k)) "destruction"
          | _ -> ());
         (match lhs, rhs with
          | "move" :: ty :: _, _ -> tracked := (ty = "stack_tracked"); source := (String.length ty >= 4 && String.sub ty 0 4 = "src_") || (String.length ty >= 5 && String.sub ty 0 5 = "list_")
          | "new" :: k :: _, "made" :: _ -> step (MNew (nat k, if !source then [] else List.rev_map zi ups)) "construction"
          | ("use" | "fill") :: k :: _, "took" :: _ ->
            if not !source then begin
              if ups <> [] then step (MGrow (nat k, List.rev_map zi ups)) "growth";
              if downs <> [] then diverge "taking memory returned a block upstream" line
            end
          | ("rel" | "relp") :: k :: _, _ ->
            if not !source then begin
              List.iter (fun b -> (match mstep !w (MDrop (nat k, zi b)) with Some (w', _) -> w := w' | None -> diverge (Printf.sprintf "block %d returned upstream is not owned by the object it was released through" b) line)) downs;
              if ups <> [] then diverge "releasing memory acquired a block" line
            end
          | "mc" :: i :: j :: _, "moved" :: _ -> incr moves; step (MMoveCons (nat i, nat j)) "move construction"; if ups <> [] then diverge "a move acquired a block" line
          | "ma" :: i :: j :: _, "assigned" :: _ -> incr assigns; step (MMoveAssign (nat i, nat j)) "move assignment"; if not !source && ups <> [] then diverge "a move assignment acquired a block" line
          | "sw" :: i :: j :: _, "swapped" :: _ -> incr swaps; step (MSwap (nat i, nat j)) "swap"; if ups <> [] then diverge "a swap acquired a block" line
          | "del" :: k :: _, "destroyed" :: _ -> incr dels; step (MDel (nat k)) "destruction"
          | "end" :: _, _ ->
            if not !source && not (same_set (List.map iz (owned !w)) downs) then diverge "at exit the remaining objects must return exactly the blocks they own" line
          | _ -> ());
         (* the state letters of the four slots against the model *)
         List.iter (fun t -> match String.split_on_char ':' t with
             | [k; s; _] ->
               let m = (match get !w (nat k) with SEmpty -> "E" | SObj (true, _) -> "M" | SObj (false, _) -> "L") in
               (* an object that received a moved-from object's state is moved-from itself *)
               if s <> m then diverge (Printf.sprintf "slot %s is %s in the model" k m) line
             | [k; s; _; tp] ->
               let m = (match get !w (nat k) with SEmpty -> "E" | SObj (true, _) -> "M" | SObj (false, _) -> "L") in
               if s <> m then diverge (Printf.sprintf "slot %s is %s in the model" k m) line;
               (* the tracker the deep pointer refers to, against DeepTracker *)
               let mt = (match t_view !tw (nat k) with None -> "E" | Some None -> "n" | Some (Some j) -> string_of_int (int_of_nat j)) in
               if tp <> mt then diverge (Printf.sprintf "the deep tracker pointer of slot %s refers to %s, in the model to %s" k tp mt) line
             | _ -> ()) (if (match lhs with "end" :: _ -> true | _ -> false) then [] else split_ws st)
       | _ -> ()
     done
   with End_of_file -> ());
  Printf.printf "SUMMARY ops=%d diverged=%d moves=%d assigns=%d swaps=%d dels=%d tracker_steps=%d\n" !ops !bad !moves !assigns !swaps !dels !tsteps
