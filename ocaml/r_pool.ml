(* Spec-acceptance replay of a pool / pool-collection log against PoolSpec.acc_op *)
open Model
open Conv

let zi = z_of_int
let iz = int_of_z

let parse_events (s : string) : ev list * (z * z) list * string list =
  (* returns events, blocks returned upstream (address, size) and upstream-side errors *)
  let toks = Array.of_list (split_ws s) in
  let n = Array.length toks in
  let evs = ref [] and errs = ref [] and downs = ref [] in
  let i = ref 0 in
  while !i < n do
    (match toks.(!i) with
     | "U+" ->
       if !i + 3 < n + 0 && toks.(!i + 3) = "fail" then (evs := EUpFail :: !evs; i := !i + 4)
       else (evs := EUp (zi (int_of_string toks.(!i + 3)), zi (int_of_string toks.(!i + 1))) :: !evs; i := !i + 4)
     | "U-" -> downs := (zi (int_of_string toks.(!i + 3)), zi (int_of_string toks.(!i + 1))) :: !downs; i := !i + 4
     | "R" -> evs := EResv (zi (int_of_string toks.(!i + 1)), zi (int_of_string toks.(!i + 2))) :: !evs; i := !i + 3
     | "I" -> evs := EIns (zi (int_of_string toks.(!i + 1)), zi (int_of_string toks.(!i + 2)), zi (int_of_string toks.(!i + 3))) :: !evs; i := !i + 4
     | t -> errs := t :: !errs; incr i)
  done;
  (List.rev !evs, List.rev !downs, List.rev !errs)

let kv (s : string) : (string * int) list =
  List.filter_map (fun t -> match String.split_on_char '=' t with
      | [k; v] -> (try Some (k, int_of_string v) with _ -> None) | _ -> None) (split_ws s)

let run () =
  let st = ref None in
  let is_coll = ref false and log2 = ref false and small = ref false in
  let pool_ns = ref 0 and max_node = ref 0 in
  let ops = ref 0 and bad = ref 0 and lineno = ref 0 and growths = ref 0 and arrays = ref 0 and fails = ref 0 in
  let last_block = ref 0 in
  let diverge msg line = incr bad; if !bad <= 12 then Printf.printf "DIVERGE line %d: %s :: %s\n" !lineno msg line in
  let min_elem () = if !small then 1 else 8 in
  let bucket size =
    if not !is_coll then !pool_ns
    else if !log2 then int_of_n (log2_bucket_node_size (n_of_int (min_elem ())) (n_of_int size))
    else int_of_n (identity_bucket_node_size (n_of_int (min_elem ())) (n_of_int size)) in
  let track_blocks evs = List.iter (function EUp (_, sz) -> last_block := iz sz; incr growths | _ -> ()) evs in
  (try
     while true do
       let line = input_line stdin in
       incr lineno;
       match String.split_on_char '|' line with
       | [head; evs; caps] ->
         let (lhs, rhs) = match String.index_opt head '=' with
           | Some i -> (split_ws (String.sub head 0 i), split_ws (String.sub head (i + 1) (String.length head - i - 1)))
           | None -> (split_ws head, []) in
         let (events, downs, uerrs) = parse_events evs in
         (match lhs, rhs with
          | "destroy" :: _, _ -> ()
          | ("pool" | "coll") :: _, "throw" :: _ ->
            (* a constructor that throws must give back what it took *)
            let ups = List.filter_map (function EUp (a, s) -> Some (a, s) | _ -> None) events in
            if List.rev ups <> downs then diverge "constructor threw without returning its blocks" line
          | ("ma" | "mfa") :: _, _ ->
            (* move assignment onto another allocator: exactly the assigned-to object's own blocks go back, newest first *)
            let ups = List.filter_map (function EUp (a, s) -> Some (a, s) | _ -> None) events in
            if List.rev ups <> downs then diverge "move assignment must return exactly the assigned-to allocator's blocks" line
          | _ -> if downs <> [] then diverge "block returned upstream before destruction" line);
         if uerrs <> [] then diverge ("upstream-side error " ^ String.concat " " uerrs) line;
         let caps = kv caps in
         (match lhs with
          | "pool" :: pt :: ns :: _ ->
            small := (pt = "small");
            let nsi = int_of_string ns in
            pool_ns := if !small then nsi else max nsi 8;
            is_coll := false;
            (match rhs with
             | "ok" :: _ ->
               let s0 = mk_ast [mk_list (if !small then LSmall else LIntrusive) (zi !pool_ns)] in
               (match acc_evs s0 events with
                | Some s -> st := Some s; track_blocks events
                | None -> diverge "constructor events rejected" line)
             | _ -> Printf.printf "NOTE constructor failed: %s\n" line)
          | "coll" :: pt :: bd :: mx :: _ ->
            small := (pt = "small"); log2 := (bd = "log2"); is_coll := true;
            (match rhs with
             | "ok" :: _ ->
               max_node := (try List.assoc "maxn" caps with Not_found -> int_of_string mx);
               let kind = if !small then LSmall else LIntrusive in
               let sizes =
                 if !log2 then
                   let rec go p acc = if p > 2 * !max_node then acc else go (2 * p) (p :: acc) in
                   List.rev (go (min_elem ()) [])
                 else List.init (!max_node - min_elem () + 1) (fun i -> i + min_elem ()) in
               let s0 = mk_ast (List.map (fun n -> mk_list kind (zi n)) sizes) in
               (match acc_evs s0 events with
                | Some s -> st := Some s; track_blocks events
                | None -> diverge "constructor events rejected" line)
             | _ -> Printf.printf "NOTE constructor failed: %s\n" line)
          | (("an" | "tn" | "aa" | "ta") as o) :: args ->
            (match !st with
             | None -> ()
             | Some s ->
               incr ops;
               let try_ = (o.[0] = 't') and arr = (o.[1] = 'a') in
               if arr then incr arrays;
               let (count, size, al) = match args with
                 | [c; sz; a] -> (int_of_string c, int_of_string sz, int_of_string a)
                 | [sz; a] -> (1, int_of_string sz, int_of_string a)
                 | _ -> (1, 1, 1) in
               let bytes = count * size in
               let oversize = if !is_coll then size > !max_node || size = 0 else size > !pool_ns in
               (* a request aligned above what is promised is refused like an oversize one: pools promise alignment_for(node size),
                  collections alignment_for(requested size) -- also for log2 buckets, whose nodes happen to be aligned better *)
               let alfor n = min 16 (n land (-n)) in
               let oversize = oversize || (not oversize && al > alfor (if !is_coll then max 1 size else max 1 (bucket size))) in
               let r = match rhs with
                 | "ok" :: p :: _ -> ObsOk (zi (int_of_string p))
                 | "null" :: _ -> ObsNull
                 | "throw" :: _ -> ObsThrow
                 | _ -> ObsFalse in
               (match r with ObsOk _ -> () | _ -> incr fails);
               (* classification of failures (C03): size/alignment beyond the limits => bad_* family, handler once *)
               (match rhs with
                | "throw" :: cls :: rest ->
                  let k = kv (String.concat " " rest) in
                  let oom = (try List.assoc "oom" k with Not_found -> 0) and badh = (try List.assoc "bad" k with Not_found -> 0) in
                  let is_bad = (String.length cls >= 3 && String.sub cls 0 3 = "bad" && cls <> "bad_alloc") in
                  let is_oom = (cls = "oom" || cls = "oofm") in
                  if is_bad && badh <> 1 then diverge "bad_allocation_size handler not called exactly once" line;
                  if is_oom && oom <> 1 then diverge "out_of_memory handler not called exactly once" line;
                  if oversize && not is_bad then diverge "oversize request must raise the bad_allocation_size family" line;
                  if not (is_bad || is_oom || cls = "bad_alloc") then diverge "exception outside the std::bad_alloc family" line
                | _ -> ());
               if oversize then begin
                 (match r with
                  | ObsOk _ -> diverge "request above max_node_size succeeded" line
                  | ObsNull -> if not try_ then diverge "throwing function returned null" line
                  | ObsThrow -> if try_ then diverge "try_ function threw" line
                  | _ -> ());
                 if events <> [] then diverge "oversize request touched the allocator" line
               end else begin
                 let ns = bucket size in
                 match acc_op s (OAlloc (try_, arr, zi ns, zi bytes)) events r with
                 | Some s' ->
                   st := Some s'; track_blocks events;
                   (* the result must also honour the requested alignment *)
                   (match r with ObsOk p -> if al > 0 && (iz p) mod al <> 0 then diverge "result not aligned as requested" line | _ -> ())
                 | None ->
                   (* diagnose *)
                   let why =
                     match find_list (zi ns) (a_lists s) with
                     | None -> "no list for this size"
                     | Some l0 ->
                       if (not arr) && iz (l_nfree l0) > 0 && List.exists (function EUp _ | EUpFail | EIns _ -> true | _ -> false) events
                       then "grew (upstream call or insert) while the list still holds a node"
                       else if try_ && List.exists (function EUp _ | EUpFail -> true | _ -> false) events then "try_ function called the upstream source"
                       else (match acc_evs s events with
                           | None -> "an inserted range / upstream block was rejected (overlaps earlier memory, outside held blocks, zero nodes, or misaligned)"
                           | Some s1 ->
                             (match r with
                              | ObsOk p -> (match find_list (zi ns) (a_lists s1) with
                                  | Some l -> if iz (l_nfree l) < iz (slots_needed (zi ns) (zi bytes)) then "result returned although the list does not hold that many nodes"
                                    else "result is not a run of nodes that are on the free list (overlaps a live allocation or is no node)"
                                  | None -> "no list")
                              | ObsNull -> if try_ then "try_ request for a single node refused although the list holds a node" else "throwing function returned null"
                              | ObsThrow -> "try_ function threw"
                              | _ -> "unexpected outcome")) in
                   diverge ("model rejects: " ^ why) line
               end)
          | (("dn" | "da" | "tdn" | "tda") as o) :: _ ->
            (match !st, rhs with
             | Some s, res :: p :: _ :: c :: sz :: _ ->
               incr ops;
               let count = int_of_string c and size = int_of_string sz in
               let arr = (o = "da" || o = "tda") in
               let bytes = if arr then count * size else size in
               let ns = bucket size in
               let r = if res = "true" then ObsTrue else ObsFalse in
               if r = ObsFalse then diverge "composable deallocation refused the allocator's own memory" line;
               (match acc_op s (ODealloc (zi ns, zi bytes, zi (int_of_string p))) events r with
                | Some s' -> st := Some s'
                | None -> diverge "model rejects the release (not a live allocation of that size, or events during release)" line)
             | _ -> ())
          | "rs" :: sz :: _ ->
            (* memory_pool_collection::reserve: only events; what was taken from the block must have gone to the pool *)
            (match !st, rhs with
             | Some s, "reserved" :: _ ->
               incr ops;
               (match acc_evs s events with
                | Some s' ->
                  st := Some s'; track_blocks events;
                  let ns = bucket (int_of_string sz) in
                  if not (List.exists (function EIns (n, _, _) -> iz n = ns | _ -> false) events) then diverge "reserve() handed nothing to the pool" line
                | None -> diverge "reserve(): an inserted range / upstream block was rejected" line)
             | Some s, "throw" :: _ -> (match acc_evs s events with Some s' -> st := Some s'; track_blocks events | None -> diverge "reserve(): events rejected" line)
             | _ -> ())
          | "foreign_tdn" :: _ ->
            incr ops;
            (match rhs with "true" :: _ -> diverge "try_deallocate accepted memory the allocator does not own" line | _ -> ())
          | "destroy" :: _ ->
            (match !st with
             | Some s ->
               if not (destroy_ok s downs) then diverge "blocks not returned exactly once in reverse order of acquisition with the same address and size" line;
               st := None
             | None -> ())
          | _ -> ());
         (* capacity figures after the operation *)
         (match !st, lhs with
          | Some s, op :: _ when op <> "destroy" && op <> "pool" && op <> "coll" ->
            if not !is_coll then begin
              (match capacity_bytes s (zi !pool_ns), (try Some (List.assoc "cap" caps) with Not_found -> None) with
               | Some m, Some c -> if iz m <> c then diverge (Printf.sprintf "capacity_left: model %d" (iz m)) line
               | _ -> ());
              (match (try Some (List.assoc "next" caps) with Not_found -> None) with
               | Some nx when !last_block > 0 ->
                 let nb = int_of_n (grow_block_size (n_of_int 2) (n_of_int 1) (n_of_int !last_block)) in
                 let exp = if !small then int_of_n (small_list_usable_size (n_of_int !pool_ns) (n_of_int (nb - 16)))
                   else int_of_n (free_list_usable_size (n_of_int !pool_ns) (n_of_int (nb - 16))) in
                 if nx <> 0 && nx <> exp then diverge (Printf.sprintf "next_capacity: model %d" exp) line
               | _ -> ())
            end else begin
              let size = (match lhs with
                  | ("an" | "tn") :: sz :: _ -> int_of_string sz
                  | ("aa" | "ta") :: _ :: sz :: _ -> int_of_string sz
                  | ("q" | "rs") :: sz :: _ -> int_of_string sz
                  | ("dn" | "da" | "tdn" | "tda") :: _ -> (match rhs with _ :: _ :: _ :: _ :: sz :: _ -> int_of_string sz | _ -> 0)
                  | _ -> 0) in
              if size > 0 && size <= !max_node then
                (match capacity_nodes s (zi (bucket size)), (try Some (List.assoc "pcap" caps) with Not_found -> None) with
                 | Some m, Some c -> if iz m <> c then diverge (Printf.sprintf "pool_capacity_left(%d): model %d" size (iz m)) line
                 | _ -> ())
            end
          | _ -> ())
       | _ ->
         (match split_ws line with
          | ("corrupt" | "nofill") :: _ -> diverge "implementation-side oracle" line
          | "end" :: rest ->
            List.iter (fun (k, v) -> if (k = "live_blocks" || k = "errors" || k = "stale_writes") && v <> 0 then diverge ("at exit " ^ k) line) (kv (String.concat " " rest))
          | _ -> ())
     done
   with End_of_file -> ());
  Printf.printf "SUMMARY ops=%d diverged=%d growths=%d arrays=%d failures=%d\n" !ops !bad !growths !arrays !fails

(* ---------- Exec lock-step: memory_pool<node_pool> (intrusive list, configurations without the double-free check) against
   PoolExec: every address, every upstream request and every range handed to the list must be the model's ---------- *)
let run_exec (dbl : bool) =
  let st = ref None in
  let steps = ref 0 and bad = ref 0 and lineno = ref 0 and grows = ref 0 in
  let diverge msg line = incr bad; if !bad <= 12 then Printf.printf "DIVERGE line %d: %s :: %s\n" !lineno msg (if String.length line > 220 then String.sub line 0 220 else line) in
  let show_evs evs = String.concat " " (List.map (function
      | EUp (a, s) -> Printf.sprintf "U+(%d,%d)" (iz a) (iz s) | EUpFail -> "U+fail"
      | EIns (n, m, s) -> Printf.sprintf "I(%d,%d,%d)" (iz n) (iz m) (iz s) | EResv (m, s) -> Printf.sprintf "R(%d,%d)" (iz m) (iz s)) evs) in
  let answer_of events = List.fold_left (fun acc e -> match e with EUp (a, _) -> Some a | _ -> acc) None events in
  let check_caps (s : upool) caps line =
    match (try Some (List.assoc "cap" caps) with Not_found -> None) with
    | Some c -> let m = List.length s.up_g.ug_l.u_nodes * iz s.up_g.ug_l.u_ns in if m <> c then diverge (Printf.sprintf "capacity_left: model %d" m) line
    | None -> () in
  (try
     while true do
       let line = input_line stdin in
       incr lineno;
       match String.split_on_char '|' line with
       | [head; evs; caps] ->
         let (lhs, rhs) = match String.index_opt head '=' with
           | Some i -> (split_ws (String.sub head 0 i), split_ws (String.sub head (i + 1) (String.length head - i - 1)))
           | None -> (split_ws head, []) in
         let (events, _, _) = parse_events evs in
         let caps = kv caps in
         let finish (s', r, mev) =
           incr steps;
           if mev <> events then diverge (Printf.sprintf "model events [%s]" (show_evs mev)) line;
           (match r, rhs with
            | ObsOk x, "ok" :: p :: _ -> if iz x <> int_of_string p then diverge (Printf.sprintf "model address %d" (iz x)) line
            | ObsNull, "null" :: _ | ObsThrow, "throw" :: _ | ObsTrue, "true" :: _ -> ()
            | ObsOk x, _ -> diverge (Printf.sprintf "model serves the request at %d" (iz x)) line
            | ObsNull, _ -> diverge "model refuses (null)" line
            | ObsThrow, _ -> diverge "model throws" line
            | _, _ -> diverge "unexpected model outcome" line);
           List.iter (function EUp _ -> incr grows | _ -> ()) mev;
           st := Some s'; check_caps s' caps line in
         (match lhs, rhs with
          | "pool" :: "node" :: ns :: bs :: src :: _, "ok" :: _ when not dbl ->
            let nsi = max 8 (int_of_string ns) in
            let k = if src = "grow" then AGrow else if src = "const" then AConst else AFixed in
            let ((s, _), mev) = up_construct k (zi nsi) (zi (int_of_string bs)) (answer_of events) in
            incr steps;
            if mev <> events then diverge (Printf.sprintf "constructor: model events [%s]" (show_evs mev)) line;
            st := Some s; check_caps s caps line
          | ("pool" | "coll") :: _, _ -> st := None
          | ("ma" | "mfa") :: _, _ -> st := None          (* the pool object is replaced: the lock-step ends here *)
          | (("an" | "tn" | "aa" | "ta") as o) :: args, res :: _ ->
            (match !st with
             | None -> ()
             | Some s ->
               let (count, size) = (match args with
                   | [c; sz; _] -> (int_of_string c, int_of_string sz)
                   | [sz; _] -> (1, int_of_string sz) | _ -> (1, 1)) in
               (* a request refused for its parameters (no events, throw or null) leaves the pool alone *)
               let refused_early = events = [] && (res = "throw" || (res = "null" && s.up_g.ug_l.u_nodes <> [] && o = "tn")) in
               if refused_early then check_caps s caps line
               else (match o with
                   | "an" -> finish (let ((a, b), c) = up_alloc_node s (answer_of events) in (a, b, c))
                   | "tn" -> finish (let ((a, b), c) = up_try_alloc_node s in (a, b, c))
                   | "aa" -> finish (let ((a, b), c) = up_alloc_array s (zi (count * size)) (answer_of events) in (a, b, c))
                   | _ -> finish (let ((a, b), c) = up_try_alloc_array s (zi (count * size)) in (a, b, c))))
          | ("dn" | "da" | "tdn" | "tda") :: _, "true" :: p :: kind :: c :: sz :: _ ->
            (match !st with
             | None -> ()
             | Some s ->
               let p = zi (int_of_string p) and bytes = int_of_string c * int_of_string sz in
               let r = if kind = "node" then up_dealloc_node s p else up_dealloc_array s p (zi bytes) in
               (match r with
                | Some ((a, b), c) -> finish (a, b, c)
                | None -> diverge "model: the released memory is not out (or not with that size)" line; st := None))
          | _ -> ())
       | _ -> ()
     done
   with End_of_file -> ());
  Printf.printf "SUMMARY exec_steps=%d diverged=%d exec_growths=%d\n" !steps !bad !grows

(* the same for memory_pool<small_node_pool> against SmallPoolExec (chunked small list; no arrays) *)
let run_exec_small () =
  let st = ref None in
  let steps = ref 0 and bad = ref 0 and lineno = ref 0 and grows = ref 0 in
  let diverge msg line = incr bad; if !bad <= 12 then Printf.printf "DIVERGE line %d: %s :: %s\n" !lineno msg (if String.length line > 220 then String.sub line 0 220 else line) in
  let show_evs evs = String.concat " " (List.map (function
      | EUp (a, s) -> Printf.sprintf "U+(%d,%d)" (iz a) (iz s) | EUpFail -> "U+fail"
      | EIns (n, m, s) -> Printf.sprintf "I(%d,%d,%d)" (iz n) (iz m) (iz s) | EResv (m, s) -> Printf.sprintf "R(%d,%d)" (iz m) (iz s)) evs) in
  let answer_of events = List.fold_left (fun acc e -> match e with EUp (a, _) -> Some a | _ -> acc) None events in
  let check_caps (s : spool) caps line =
    match (try Some (List.assoc "cap" caps) with Not_found -> None) with
    | Some c -> let m = iz (sm_capacity s.sp_g.g_l) * iz s.sp_g.g_l.sm_ns in if m <> c then diverge (Printf.sprintf "capacity_left: model %d" m) line
    | None -> () in
  (try
     while true do
       let line = input_line stdin in
       incr lineno;
       match String.split_on_char '|' line with
       | [head; evs; caps] ->
         let (lhs, rhs) = match String.index_opt head '=' with
           | Some i -> (split_ws (String.sub head 0 i), split_ws (String.sub head (i + 1) (String.length head - i - 1)))
           | None -> (split_ws head, []) in
         let (events, _, _) = parse_events evs in
         let caps = kv caps in
         let finish (s', r, mev) =
           incr steps;
           if mev <> events then diverge (Printf.sprintf "model events [%s]" (show_evs mev)) line;
           (match r, rhs with
            | ObsOk x, "ok" :: p :: _ -> if iz x <> int_of_string p then diverge (Printf.sprintf "model address %d" (iz x)) line
            | ObsNull, "null" :: _ | ObsThrow, "throw" :: _ | ObsTrue, "true" :: _ -> ()
            | ObsOk x, _ -> diverge (Printf.sprintf "model serves the request at %d" (iz x)) line
            | ObsNull, _ -> diverge "model refuses (null)" line
            | ObsThrow, _ -> diverge "model throws" line
            | _, _ -> diverge "unexpected model outcome" line);
           List.iter (function EUp _ -> incr grows | _ -> ()) mev;
           st := Some s'; check_caps s' caps line in
         (match lhs, rhs with
          | "pool" :: "small" :: ns :: bs :: src :: _, "ok" :: _ ->
            let k = if src = "grow" then AGrow else if src = "const" then AConst else AFixed in
            let ((s, _), mev) = sp_construct k (zi (int_of_string ns)) (zi (int_of_string bs)) (answer_of events) in
            incr steps;
            if mev <> events then diverge (Printf.sprintf "constructor: model events [%s]" (show_evs mev)) line;
            st := Some s; check_caps s caps line
          | ("pool" | "coll") :: _, _ -> st := None
          | ("ma" | "mfa") :: _, _ -> st := None
          | (("an" | "tn") as o) :: _, res :: _ ->
            (match !st with
             | None -> ()
             | Some s ->
               let has_room = iz (sm_capacity s.sp_g.g_l) > 0 in
               let refused_early = events = [] && (res = "throw" || (res = "null" && has_room)) in
               if refused_early then check_caps s caps line
               else if o = "an" then finish (let ((a, b), c) = sp_alloc_node s (answer_of events) in (a, b, c))
               else finish (let ((a, b), c) = sp_try_alloc_node s in (a, b, c)))
          | ("dn" | "tdn") :: _, "true" :: p :: _ ->
            (match !st with
             | None -> ()
             | Some s ->
               (match sp_dealloc_node s (zi (int_of_string p)) with
                | Some ((a, b), c) -> finish (a, b, c)
                | None -> diverge "model: the released node is not out" line; st := None))
          | _ -> ())
       | _ -> ()
     done
   with End_of_file -> ());
  Printf.printf "SUMMARY exec_steps=%d diverged=%d exec_growths=%d\n" !steps !bad !grows

(* memory_pool over the address-ordered list (array_pool in every configuration, node_pool where the double-free check is
   compiled in) against OrderedPoolExec; pos: where the pool object (with the list's sentinels) lies relative to its memory *)
let run_exec_ordered (node_pool_too : bool) =
  let st = ref None in
  let steps = ref 0 and bad = ref 0 and lineno = ref 0 and grows = ref 0 in
  let diverge msg line = incr bad; if !bad <= 12 then Printf.printf "DIVERGE line %d: %s :: %s\n" !lineno msg (if String.length line > 220 then String.sub line 0 220 else line) in
  let show_evs evs = String.concat " " (List.map (function
      | EUp (a, s) -> Printf.sprintf "U+(%d,%d)" (iz a) (iz s) | EUpFail -> "U+fail"
      | EIns (n, m, s) -> Printf.sprintf "I(%d,%d,%d)" (iz n) (iz m) (iz s) | EResv (m, s) -> Printf.sprintf "R(%d,%d)" (iz m) (iz s)) evs) in
  let answer_of events = List.fold_left (fun acc e -> match e with EUp (a, _) -> Some a | _ -> acc) None events in
  let check_caps (s : opool) caps line =
    match (try Some (List.assoc "cap" caps) with Not_found -> None) with
    | Some c -> let m = List.length s.op_g.og_l.nodes * iz s.op_g.og_l.nsz in if m <> c then diverge (Printf.sprintf "capacity_left: model %d" m) line
    | None -> () in
  (try
     while true do
       let line = input_line stdin in
       incr lineno;
       match String.split_on_char '|' line with
       | [head; evs; caps] ->
         let (lhs, rhs) = match String.index_opt head '=' with
           | Some i -> (split_ws (String.sub head 0 i), split_ws (String.sub head (i + 1) (String.length head - i - 1)))
           | None -> (split_ws head, []) in
         let (events, _, _) = parse_events evs in
         let caps = kv caps in
         let finish (s', r, mev) =
           incr steps;
           if mev <> events then diverge (Printf.sprintf "model events [%s]" (show_evs mev)) line;
           (match r, rhs with
            | ObsOk x, "ok" :: p :: _ -> if iz x <> int_of_string p then diverge (Printf.sprintf "model address %d" (iz x)) line
            | ObsNull, "null" :: _ | ObsThrow, "throw" :: _ | ObsTrue, "true" :: _ -> ()
            | ObsOk x, _ -> diverge (Printf.sprintf "model serves the request at %d" (iz x)) line
            | ObsNull, _ -> diverge "model refuses (null)" line
            | ObsThrow, _ -> diverge "model throws" line
            | _, _ -> diverge "unexpected model outcome" line);
           List.iter (function EUp _ -> incr grows | _ -> ()) mev;
           st := Some s'; check_caps s' caps line in
         (match lhs, rhs with
          | "pool" :: pt :: ns :: bs :: src :: pos :: _, "ok" :: _ when pt = "array" || (pt = "node" && node_pool_too) ->
            let nsi = max 8 (int_of_string ns) in
            let k = if src = "grow" then AGrow else if src = "const" then AConst else AFixed in
            let (pb0, pe0) = if pos = "high" then (zi (1 lsl 40), zi ((1 lsl 40) + 8)) else (zi 1, zi 9) in
            let ((s, _), mev) = op_construct k pb0 pe0 (zi nsi) (zi (int_of_string bs)) (answer_of events) in
            incr steps;
            if mev <> events then diverge (Printf.sprintf "constructor: model events [%s]" (show_evs mev)) line;
            st := Some s; check_caps s caps line
          | ("pool" | "coll") :: _, _ -> st := None
          | ("ma" | "mfa") :: _, _ -> st := None
          | (("an" | "tn" | "aa" | "ta") as o) :: args, res :: _ ->
            (match !st with
             | None -> ()
             | Some s ->
               let (count, size) = (match args with
                   | [c; sz; _] -> (int_of_string c, int_of_string sz)
                   | [sz; _] -> (1, int_of_string sz) | _ -> (1, 1)) in
               let refused_early = events = [] && (res = "throw" || (res = "null" && s.op_g.og_l.nodes <> [] && o = "tn")) in
               if refused_early then check_caps s caps line
               else (match o with
                   | "an" -> finish (let ((a, b), c) = op_alloc_node s (answer_of events) in (a, b, c))
                   | "tn" -> finish (let ((a, b), c) = op_try_alloc_node s in (a, b, c))
                   | "aa" -> finish (let ((a, b), c) = op_alloc_array s (zi (count * size)) (answer_of events) in (a, b, c))
                   | _ -> finish (let ((a, b), c) = op_try_alloc_array s (zi (count * size)) in (a, b, c))))
          | ("dn" | "da" | "tdn" | "tda") :: _, "true" :: p :: kind :: c :: sz :: _ ->
            (match !st with
             | None -> ()
             | Some s ->
               let p = zi (int_of_string p) in
               let bytes = if kind = "node" then iz s.op_g.og_l.nsz else int_of_string c * int_of_string sz in
               (match op_dealloc s p (zi bytes) with
                | Some ((a, b), c) -> finish (a, b, c)
                | None -> diverge "model: the released memory is not out (or not with that size)" line; st := None))
          | _ -> ())
       | _ -> ()
     done
   with End_of_file -> ());
  Printf.printf "SUMMARY exec_steps=%d diverged=%d exec_growths=%d\n" !steps !bad !grows

(* memory_pool_collection logs against CollExec (instantiated in CollInst): node_pool without the double-free check over the
   intrusive list, array_pool (and node_pool with the check) over the address-ordered list; every address, every upstream
   request, every range handed to a list, the reserved list array, and the three capacities must be the model's *)
let run_exec_coll (dbl : bool) (fence : int) =
  let steps = ref 0 and bad = ref 0 and lineno = ref 0 and grows = ref 0 and stuck = ref 0 in
  let diverge msg line = incr bad; if !bad <= 12 then Printf.printf "DIVERGE line %d: %s :: %s\n" !lineno msg (if String.length line > 220 then String.sub line 0 220 else line) in
  let show_evs evs = String.concat " " (List.map (function
      | EUp (a, s) -> Printf.sprintf "U+(%d,%d)" (iz a) (iz s) | EUpFail -> "U+fail"
      | EIns (n, m, s) -> Printf.sprintf "I(%d,%d,%d)" (iz n) (iz m) (iz s) | EResv (m, s) -> Printf.sprintf "R(%d,%d)" (iz m) (iz s)) evs) in
  let answers events = List.filter_map (function EUp (a, _) -> Some (Some a) | EUpFail -> Some None | _ -> None) events in
  (* the two instantiations behind one interface *)
  let ust = ref None and ost = ref None and sst = ref None and log2 = ref false in
  let live () = !ust <> None || !ost <> None || !sst <> None in
  let drop () = ust := None; ost := None; sst := None in
  let me () = if !sst <> None then n_of_int 1 else n_of_int 8 in
  let caps_of () = match !ust, !ost, !sst with
    | Some s, _, _ -> Some (iz (cc_capacity_left s), iz (ar_next_block_size s.cc_ar), (fun ns -> match c_find ug_ns (zi ns) s.cc_lists with Some g -> Some (iz (ug_free g)) | None -> None))
    | _, Some s, _ -> Some (iz (cc_capacity_left s), iz (ar_next_block_size s.cc_ar), (fun ns -> match c_find og_ns (zi ns) s.cc_lists with Some g -> Some (iz (og_free g)) | None -> None))
    | _, _, Some s -> Some (iz (cc_capacity_left s), iz (ar_next_block_size s.cc_ar), (fun ns -> match c_find sg_ns (zi ns) s.cc_lists with Some g -> Some (iz (sg_free g)) | None -> None))
    | _ -> None in
  let check_caps size caps line =
    match caps_of () with
    | None -> ()
    | Some (cap, next, pcap) ->
      (match (try Some (List.assoc "cap" caps) with Not_found -> None) with
       | Some c when c <> cap -> diverge (Printf.sprintf "capacity_left: model %d" cap) line | _ -> ());
      (match (try Some (List.assoc "next" caps) with Not_found -> None) with
       | Some c when c <> next -> diverge (Printf.sprintf "next_capacity: model %d" next) line | _ -> ());
      (match (try Some (List.assoc "pcap" caps), (try Some (List.assoc "maxn" caps) with Not_found -> None) with Not_found -> None, None) with
       | Some c, Some mx when size >= 1 && size <= mx ->
         (match pcap (iz (coll_bkt_me (me ()) !log2 (zi size))) with
          | Some m when m <> c -> diverge (Printf.sprintf "pool_capacity_left(%d): model %d" size m) line | _ -> ())
       | _ -> ()) in
  let step (o : coll_op) =
    match !ust, !ost, !sst with
    | Some s, _, _ -> (match uc_step !log2 s o with Some ((s', r), evs) -> ust := Some s'; Some (r, evs) | None -> None)
    | _, Some s, _ -> (match oc_step !log2 s o with Some ((s', r), evs) -> ost := Some s'; Some (r, evs) | None -> None)
    | _, _, Some s -> (match sc_step !log2 s o with Some ((s', r), evs) -> sst := Some s'; Some (r, evs) | None -> None)
    | _ -> None in
  (try
     while true do
       let line = input_line stdin in
       incr lineno;
       match String.split_on_char '|' line with
       | [head; evs; caps] ->
         let (lhs, rhs) = match String.index_opt head '=' with
           | Some i -> (split_ws (String.sub head 0 i), split_ws (String.sub head (i + 1) (String.length head - i - 1)))
           | None -> (split_ws head, []) in
         let (events, _, _) = parse_events evs in
         let caps = kv caps in
         let finish size (r, mev) =
           incr steps;
           if mev <> events then diverge (Printf.sprintf "model events [%s]" (show_evs mev)) line;
           (match r, rhs with
            | ObsOk x, "ok" :: p :: _ -> if iz x <> int_of_string p then diverge (Printf.sprintf "model address %d" (iz x)) line
            | ObsNull, "null" :: _ | ObsThrow, "throw" :: _ | ObsTrue, "true" :: _ -> ()
            | ObsOk x, _ -> diverge (Printf.sprintf "model serves the request at %d" (iz x)) line
            | ObsNull, _ -> diverge "model refuses (null)" line
            | ObsThrow, _ -> diverge "model throws" line
            | _, _ -> diverge "unexpected model outcome" line);
           List.iter (function EUp _ -> incr grows | _ -> ()) mev;
           check_caps size caps line in
         (match lhs, rhs with
          | "coll" :: pt :: bd :: mx :: bs :: src :: _, "ok" :: _ when pt = "node" || pt = "array" || pt = "small" ->
            drop (); log2 := (bd = "log2");
            let ordered = pt = "array" || dbl in
            let k = if src = "grow" then AGrow else if src = "const" then AConst else AFixed in
            let answer = match answers events with a :: _ -> a | [] -> None in
            let mxz = zi (int_of_string mx) and bsz = zi (int_of_string bs) in
            let mev =
              if pt = "small" then (match sc_construct !log2 k (zi fence) mxz bsz answer with
                  | Some ((s, true), mev) -> sst := Some s; Some mev | Some ((_, false), mev) -> Some mev | None -> None)
              else if ordered then (match oc_construct !log2 k (zi fence) mxz bsz answer with
                  | Some ((s, true), mev) -> ost := Some s; Some mev | Some ((_, false), mev) -> Some mev | None -> None)
              else (match uc_construct !log2 k (zi fence) mxz bsz answer with
                  | Some ((s, true), mev) -> ust := Some s; Some mev | Some ((_, false), mev) -> Some mev | None -> None) in
            incr steps;
            (match mev with
             | Some mev -> if mev <> events then diverge (Printf.sprintf "constructor: model events [%s]" (show_evs mev)) line
             | None -> diverge "constructor: the model's assertion fires" line);
            if not (live ()) then diverge "constructor: the model throws bad_node_size" line;
            (match (try Some (List.assoc "maxn" caps) with Not_found -> None) with
             | Some m when m <> iz (if pt = "small" then sc_max !log2 mxz else coll_max !log2 mxz) -> diverge "max_node_size differs from the model's" line | _ -> ());
            check_caps 0 caps line
          | ("pool" | "coll") :: _, _ -> drop ()
          | ("ma" | "mfa" | "mv") :: _, _ -> ()        (* a move leaves the collection's state as it was (its lists live in the first block): the lock-step goes on *)
          | (("an" | "tn" | "aa" | "ta") as o) :: args, res :: _ when live () ->
            let (count, size, al) = (match args with
                | [c; sz; a] -> (int_of_string c, int_of_string sz, int_of_string a)
                | [sz; a] -> (1, int_of_string sz, int_of_string a) | _ -> (1, 1, 1)) in
            (* the allocator traits refuse an alignment above alignment_for(size) before the collection is asked *)
            let over_aligned = size >= 1 && al > min 16 (size land (-size)) in
            let ans = answers events in
            let a1 = (match ans with a :: _ -> a | [] -> None) in
            let a2 = (match ans with _ :: a :: _ -> a | [a] -> a | [] -> None) in
            let op = (match o with
                | "an" -> CAllocNode (zi size, a1) | "tn" -> CTryAllocNode (zi size)
                | "aa" -> CAllocArray (zi size, zi (count * size), a1, a2) | _ -> CTryAllocArray (zi size, zi (count * size))) in
            let before = (!ust, !ost, !sst) in
            (match (if over_aligned then None else step op) with
             | Some (r, mev) -> finish size (r, mev)
             | None ->
               (* not described by the model: refused for its parameters before any list is looked at (no events) *)
               (let (a, b, c) = before in ust := a; ost := b; sst := c);
               if events = [] && (res = "throw" || res = "null") then check_caps size caps line
               else (incr stuck; diverge "the model does not describe this call (an assertion of the implementation would fire)" line; drop ()))
          | "rs" :: sz :: cp :: _, res :: _ when live () && res <> "none" ->
            let size = int_of_string sz and cap = int_of_string cp in
            let answer = (match answers events with a :: _ -> a | [] -> None) in
            let r = (match !ust, !ost, !sst with
                | Some s, _, _ -> (match uc_reserve !log2 s (zi size) (zi cap) answer with Some ((s', ok), evs) -> ust := Some s'; Some (ok, evs) | None -> None)
                | _, Some s, _ -> (match oc_reserve !log2 s (zi size) (zi cap) answer with Some ((s', ok), evs) -> ost := Some s'; Some (ok, evs) | None -> None)
                | _, _, Some s -> (match sc_reserve !log2 s (zi size) (zi cap) answer with Some ((s', ok), evs) -> sst := Some s'; Some (ok, evs) | None -> None)
                | _ -> None) in
            (match r with
             | Some (ok, mev) ->
               incr steps;
               if mev <> events then diverge (Printf.sprintf "reserve: model events [%s]" (show_evs mev)) line;
               if ok <> (res = "reserved") then diverge "reserve: outcome differs from the model's" line;
               List.iter (function EUp _ -> incr grows | _ -> ()) mev;
               check_caps size caps line
             | None -> incr stuck; diverge "reserve: the model does not describe this call (an assertion of the implementation would fire)" line; drop ())
          | ("dn" | "da" | "tdn" | "tda") :: _, "true" :: p :: kind :: c :: sz :: _ when live () ->
            let size = int_of_string sz in
            let bytes = if kind = "node" then size else int_of_string c * size in
            (match step (CDealloc (zi size, zi bytes, zi (int_of_string p))) with
             | Some (r, mev) -> finish size (r, mev)
             | None -> diverge "model: the released memory is not out (or not with that size)" line; drop ())
          | _ -> ())
       | _ -> ()
     done
   with End_of_file -> ());
  Printf.printf "SUMMARY exec_steps=%d diverged=%d exec_growths=%d\n" !steps !bad !grows
