let () =
  match Array.to_list Sys.argv with
  | _ :: "arith" :: _ -> R_arith.run ()
  | _ -> prerr_endline "usage: replay <topic>"; exit 2
