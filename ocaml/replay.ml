let () =
  match Array.to_list Sys.argv with
  | _ :: "arith" :: _ -> R_arith.run ()
  | _ :: "iter" :: fence :: fill :: _ -> R_iter.run (int_of_string fence) (fill = "1")
  | _ :: "poolexec" :: "small" :: _ -> R_pool.run_exec_small ()
  | _ :: "poolexec" :: "ordered" :: n :: _ -> R_pool.run_exec_ordered (n = "1")
  | _ :: "poolexec" :: dbl :: _ -> R_pool.run_exec (dbl = "1")
  | _ :: "pool" :: _ -> R_pool.run ()
  | _ :: "stack" :: fence :: _ -> R_stack.run (int_of_string fence)
  | _ :: "arena" :: _ -> R_arena.run ()
  | _ :: "minblock" :: _ -> R_minblock.run ()
  | _ :: "lowlevel" :: "newloop" :: _ -> R_lowlevel.run_newloop ()
  | _ :: "lowlevel" :: _ -> R_lowlevel.run ()
  | _ :: "leak" :: "global" :: _ -> R_leak.run_global ()
  | _ :: "leak" :: _ -> R_leak.run ()
  | _ :: "joint" :: _ -> R_joint.run ()
  | _ :: "exc" :: _ -> R_exc.run ()
  | _ :: "thread" :: _ -> R_thread.run ()
  | _ :: "temp" :: c :: _ -> R_temp.run c
  | _ :: "temp" :: _ -> R_temp.run "fixed"
  | _ :: "container" :: _ -> R_container.run ()
  | _ :: "move" :: _ -> R_move.run ()
  | _ :: "ordered" :: "small" :: _ -> R_ordered.run_small ()
  | _ :: "ordered" :: "unord" :: _ -> R_ordered.run_unord ()
  | _ :: "ordered" :: _ -> R_ordered.run_ord ()
  | _ :: "compose" :: "fb" :: _ -> R_compose.run_fb ()
  | _ :: "compose" :: "fbl" :: _ -> R_compose.run_fbl ()
  | _ :: "compose" :: _ -> R_compose.run_fwd ()
  | _ -> prerr_endline "usage: replay <topic> [args]"; exit 2
