(* C11: joint allocations against Joint.jstep *)
open Model
open Conv

let run () =
  let total = ref 0 and bad = ref 0 and overflow = ref 0 and exact = ref 0 and clones = ref 0 in
  let diverge msg line = incr bad; if !bad <= 12 then Printf.printf "DIVERGE %s :: %s\n" msg line in
  let zi = z_of_int and iz = int_of_z in
  (try
     while true do
       let line = input_line stdin in
       match String.index_opt line '=' with
       | Some i when String.length line > 2 && line.[0] = 'j' ->
         let lhs = split_ws (String.sub line 0 i) and rest = String.sub line (i + 1) (String.length line - i - 1) in
         (match lhs with
          | "j" :: form :: cap :: nc :: na :: nb :: thr :: post :: raw when int_of_string thr < 0 ->
            incr total;
            let cap = int_of_string cap and nc = int_of_string nc and na = int_of_string na and nb = int_of_string nb in
            let toks = split_ws (String.concat " " (String.split_on_char '|' rest)) in
            let geti k = List.fold_left (fun acc t -> let kl = String.length k in
                                          if String.length t > kl && String.sub t 0 kl = k then (try Some (int_of_string (String.sub t kl (String.length t - kl))) with _ -> acc) else acc) None toks in
            let sT = (match geti "sT=" with Some v -> v | None -> 0) and aT = (match geti "aT=" with Some v -> v | None -> 0) and eS = (match geti "eS=" with Some v -> v | None -> 8) in
            let eA = (match geti "eA=" with Some v -> v | None -> eS) in
            (* upstream events in order *)
            let rec events l acc = match l with
              | "U+" :: sz :: al :: off :: tl -> events tl (`Up (int_of_string sz, int_of_string al, int_of_string off) :: acc)
              | "U-" :: sz :: al :: off :: tl -> events tl (`Down (int_of_string sz, int_of_string al, int_of_string off) :: acc)
              | _ :: tl -> events tl acc | [] -> List.rev acc in
            let evs = events toks [] in
            (match evs with
             | `Up (sz, al, obj) :: more ->
               if sz <> sT + cap || al <> aT then diverge (Printf.sprintf "leaf request must be (sizeof T + additional = %d, alignof T = %d)" (sT + cap) aT) line;
               let s = ref (j_init (zi obj) (zi sT) (zi cap)) in
               let failed = ref false in
               let expect = ref [] in
               let alloc name size al =
                 if not !failed then begin
                   let (s', out) = jstep !s (JAlloc (zi size, zi al)) in
                   (match out with
                    | JOk p -> s := s'; expect := (name, Some (iz p - obj)) :: !expect
                    | _ -> failed := true; incr overflow)
                 end in
               alloc "c@" nc 1;
               if form = "range" then begin
                 if na > 0 && not !failed then begin
                   alloc "a@" eS eA;
                   for _ = 2 to na do
                     if not !failed then (let (s', out) = jstep !s (JBump (zi eS)) in (match out with JDone -> s := s' | _ -> failed := true; incr overflow))
                   done
                 end
               end else alloc "a@" (na * eS) eA;
               alloc "b@" (nb * 16) 16;
               let ctor_ok = List.mem "ctor=ok" toks in
               if !failed then begin
                 if ctor_ok then diverge "model: a member array does not fit, creation must throw out_of_fixed_memory" line
                 else if not (List.mem "ctor=throw:oofm" toks) then diverge "overflow must raise out_of_fixed_memory" line;
                 (* the block goes back with the parameters it was obtained with *)
                 (match more with `Down (sz2, al2, off2) :: _ -> if (sz2, al2, off2) <> (sz, al, obj) then diverge "release parameters differ from the allocation's" line
                               | _ -> diverge "block not returned after the failed creation" line)
               end else begin
                 if not ctor_ok then diverge "model: everything fits, creation must succeed" line
                 else begin
                   List.iter (fun (name, v) ->
                       match v, geti name with
                       | Some m, Some o -> if m <> o && not (form = "range" && name = "a@" && na = 0) then diverge (Printf.sprintf "%s model %d" name m) line
                       | _ -> ()) !expect;
                   (* raw joint_allocator requests made in the constructor body *)
                   let rec raws l = match l with sz :: al :: tl -> (int_of_string sz, int_of_string al) :: raws tl | _ -> [] in
                   let rawtoks = ref (List.filter (fun t -> String.length t > 2 && String.sub t 0 2 = "n(") toks) in
                   List.iter (fun (sz, al) ->
                       let key = Printf.sprintf "n(%d,%d)@" sz al in
                       let (s', out) = jstep !s (JAlloc (zi sz, zi al)) in
                       let obs = (match !rawtoks with
                           | t :: tl -> rawtoks := tl; let kl = String.length key in
                             if String.length t > kl && String.sub t 0 kl = key then Some (String.sub t kl (String.length t - kl)) else None
                           | [] -> None) in
                       (match out, obs with
                        | JOk p, Some o -> s := s'; if o = "throw" || int_of_string o <> iz p - obj then diverge (Printf.sprintf "%s model %d" key (iz p - obj)) line
                        | JThrow, Some o -> incr overflow; if o <> "throw" then diverge (key ^ " model: does not fit, must throw") line
                        | _ -> ())) (raws raw);
                   (match geti "left=" with Some l -> if l <> iz (j_capacity_left !s) then diverge (Printf.sprintf "capacity_left model %d" (iz (j_capacity_left !s))) line; if l = 0 then incr exact | None -> ());
                   (* release: exactly the allocation's parameters, once *)
                   let downs = List.filter_map (function `Down d -> Some d | _ -> None) more in
                   let (ro, rs) = j_release_params !s in
                   if not (List.mem (iz rs, aT, iz ro) downs) then diverge (Printf.sprintf "release must be (%d, %d) at the object's address" (iz rs) aT) line;
                   if List.length (List.filter (fun d -> d = (iz rs, aT, iz ro)) downs) <> 1 then diverge "object's block must be released exactly once" line;
                   (* clone / move-with-allocator: asks for sizeof T + memory in use, shares nothing *)
                   if post = "clone" || post = "move" then begin
                     incr clones;
                     (match List.filter_map (function `Up u -> Some u | _ -> None) more with
                      | (sz2, al2, _) :: _ -> if sz2 <> sT + iz (j_clone_size !s) || al2 <> aT then diverge (Printf.sprintf "clone must request sizeof T + used = %d" (sT + iz (j_clone_size !s))) line
                      | [] -> if not (List.exists (fun t -> String.length t > 11 && String.sub t 0 11 = "clone=throw") toks) then diverge "clone made no leaf request" line);
                     if List.mem "shared=1" toks then diverge "clone shares memory with its source" line
                   end
                 end
               end
             | _ -> diverge "no leaf allocation" line)
          | _ -> ())
       | _ ->
         (match split_ws line with
          | "end" :: rest -> List.iter (fun t -> match String.split_on_char '=' t with [k; v] when (k = "live_blocks" || k = "errors") && v <> "0" -> diverge ("at exit " ^ k) line | _ -> ()) rest
          | _ -> ())
     done
   with End_of_file -> ());
  Printf.printf "SUMMARY total=%d diverged=%d overflows=%d exact_fits=%d clones=%d\n" !total !bad !overflow !exact !clones
