(* C10: container programs against the protocol model Container.cstep (which allocator each container refers to after every
   operation, how many nodes it holds, no release through a foreign allocator), equality lines against heq / same_resource,
   probe lines against the layout inequality *)
open Model
open Conv

let zi = z_of_int and iz = int_of_z
let kvs (s : string) = List.filter_map (fun t -> match String.index_opt t '=' with
    | Some i -> Some (String.sub t 0 i, String.sub t (i + 1) (String.length t - i - 1)) | None -> None) (split_ws s)

let run () =
  let tr = { pocca = true; pocma = true; pocs = true } in
  let worlds = Hashtbl.create 8 in
  let fresh_world () = [ { k_alloc = nat_of_int 0; k_nodes = [] }; { k_alloc = nat_of_int 0; k_nodes = [] }; { k_alloc = nat_of_int 1; k_nodes = [] }; { k_alloc = nat_of_int 1; k_nodes = [] } ] in
  let ops = ref 0 and bad = ref 0 and lineno = ref 0 and eqs = ref 0 and probes = ref 0 in
  let diverge msg line = incr bad; if !bad <= 12 then Printf.printf "DIVERGE line %d: %s :: %s\n" !lineno msg line in
  (try
     while true do
       let line = input_line stdin in
       incr lineno;
       let toks = split_ws line in
       match toks with
       | "eq" :: kind :: a :: b :: rest ->
         incr eqs;
         let k = kvs (String.concat " " rest) in
         let obj s = if String.length s > 0 && s.[String.length s - 2] = 'B' then 2 else if String.contains s 'B' && not (String.contains s 'A') then 2 else 1 in
         ignore obj;
         (* the harness states which resource both sides refer to; the model decides equality from that *)
         let same = (List.assoc "same_resource" k = "1") and eq = (List.assoc "equal" k = "1") in
         let mk o = (match kind with "ref" -> HRef (nat_of_int o) | "any" -> HAny (nat_of_int o) | _ -> HStateless (nat_of_int 0)) in
         let ha = mk 1 and hb = mk (if same then 1 else 2) in
         if heq true ha hb <> eq then diverge (Printf.sprintf "operator== is %b, the model says %b" eq (heq true ha hb)) line;
         if same_resource ha hb <> same then diverge "model: resources differ from what the harness states" line;
         ignore a; ignore b
       | "end" :: _ -> Hashtbl.reset worlds      (* the next program starts with fresh containers *)
       | "probe" :: _ ->
         incr probes;
         let k = kvs line in
         let actual = int_of_string (List.assoc "actual" k) and promised = int_of_string (List.assoc "promised" k) in
         if actual > promised then diverge (Printf.sprintf "the container asks for %d bytes per node, the constant promises %d" actual promised) line
       | kind :: op :: i :: j :: "=" :: res :: _ when List.mem kind ["list"; "forward_list"; "set"; "unordered_set"; "map"; "vector"; "deque"; "s_list"; "s_vector"; "p_list"; "a_list"; "a_vector"] ->
         incr ops;
         let w = (match Hashtbl.find_opt worlds kind with Some w -> w | None -> fresh_world ()) in
         let i = nat_of_int (int_of_string i) and j = nat_of_int (int_of_string j) in
         let o = (match op with
             | "ins" -> Some (CInsert i) | "erase" -> Some (CErase i) | "clear" -> Some (CClear i)
             | "copy" | "cc" -> Some (CCopyAssign (i, j)) | "move" | "mc" -> Some (CMoveAssign (i, j)) | "swap" -> Some (CSwap (i, j)) | _ -> None) in
         (match o with
          | None -> ()
          | Some o ->
            (match kstep tr w o with
             | None -> diverge "model: operation not enabled" line
             | Some (w', rels) ->
               Hashtbl.replace worlds kind w';
               if List.exists (fun (a, b) -> int_of_nat a <> int_of_nat b) rels then diverge "model: a node is released through a foreign allocator" line;
               (* allocator letters *)
               (match String.split_on_char '|' line with
                | [_; letters; sizes] ->
                  let ls = split_ws letters in
                  List.iteri (fun k c ->
                      let m = if int_of_nat (List.nth w' k).k_alloc = 0 then "A" else "B" in
                      if k < List.length ls && List.nth ls k <> m then diverge (Printf.sprintf "container %d refers to allocator %s, the model says %s" k (List.nth ls k) m) line) w';
                  ignore sizes
                | _ -> ());
               if res <> "same" then diverge "contents differ from the same program on std::allocator" line))
       | _ -> ()
     done
   with End_of_file -> ());
  Printf.printf "SUMMARY ops=%d diverged=%d eqs=%d probes=%d\n" !ops !bad !eqs !probes
