(* C18: compare the carving model and the generated min_block_size with what the real lists/pools report *)
open Model
open Conv

let run () =
  let total = ref 0 and bad = ref 0 and short = ref 0 in
  let diverge msg line = incr bad; if !bad <= 12 then Printf.printf "DIVERGE %s :: %s\n" msg line in
  let zi = z_of_int in
  (try
     while true do
       let line = input_line stdin in
       match split_ws line with
       | "L" :: t :: ns :: n :: "=" :: bs :: cap :: lns :: _ ->
         incr total;
         let t = int_of_string t and ns = int_of_string ns and n = int_of_string n and bs = int_of_string bs and cap = int_of_string cap and lns = int_of_string lns in
         let mbs = int_of_n ((match t with 0 -> free_list_min_block_size | 1 -> ordered_list_min_block_size | _ -> small_list_min_block_size) (n_of_int ns) (n_of_int n)) in
         if mbs <> bs then diverge (Printf.sprintf "min_block_size: generated model %d" mbs) line;
         let nodes = if t = 2 then int_of_z (s_nodes (zi 32) (zi 255) (zi 8) (zi lns) (zi bs)) else int_of_z (l_nodes (zi lns) (zi bs)) in
         if nodes <> cap then diverge (Printf.sprintf "nodes linked: carving model %d" nodes) line;
         if cap < n then begin incr short; Printf.printf "SHORT %s\n" line end
       | "S" :: ns :: size :: "=" :: cap :: _ ->
         incr total;
         let nodes = int_of_z (s_nodes (zi 32) (zi 255) (zi 8) (zi (int_of_string ns)) (zi (int_of_string size))) in
         if nodes <> int_of_string cap then diverge (Printf.sprintf "nodes linked: carving model %d" nodes) line
       | "P" :: t :: ns :: n :: "=" :: bs :: got :: grew :: _ ->
         incr total;
         if int_of_string got < int_of_string n then begin incr short; Printf.printf "SHORT %s\n" line end;
         if int_of_string grew <> 0 then diverge "pool grew while serving min_block_size nodes through try_allocate_node" line
       | _ -> ()
     done
   with End_of_file -> ());
  Printf.printf "SUMMARY total=%d diverged=%d short=%d\n" !total !bad !short
